#!/bin/sh
# kills every running check (python -m vp.run ...) and seed trial
for p in $(pgrep -f "python -m vp.run"); do kill $p 2>/dev/null; done
for p in $(pgrep -f "tools/try_seed.sh"); do kill $p 2>/dev/null; done
sleep 1
echo "left: $(pgrep -f 'python -m vp.run' | wc -l)"
