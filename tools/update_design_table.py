#!/usr/bin/env python3
"""Replaces the seed table of DESIGN.md section 0.5 by the table produced by tools/mkseedmeta.py (reads seeded/RESULTS.tsv)."""
import subprocess, re, os
here = os.path.dirname(os.path.dirname(os.path.abspath(__file__)))
table = subprocess.run(['python3', os.path.join(here, 'tools', 'mkseedmeta.py')], capture_output=True, text=True).stdout.strip()
p = os.path.join(here, 'DESIGN.md')
s = open(p).read()
a = s.index('| seed | files | quick check verdict | wall s |')
b = s.index('## 1. What is being decided')
s = s[:a] + table + '\n\n\n' + s[b:]
open(p, 'w').write(s)
print('table rows:', table.count('\n') - 1)
