#!/usr/bin/env python3
"""Regenerates MANIFEST.json from tools/checks.json (one entry per claimed property) and
properties.jsonl (everything not claimed is listed under not_applicable with its reason)."""
import json, os
here = os.path.dirname(os.path.dirname(os.path.abspath(__file__)))
props = [json.loads(l) for l in open(os.path.join(here, 'properties.jsonl'))]
spec = json.load(open(os.path.join(here, 'tools', 'checks.json')))
checks = []
for p in props:
    c = spec['checks'].get(p['id'])
    if not c:
        continue
    checks.append({
        'property_id': p['id'],
        'quick_cmd': f"./check {p['id']} quick",
        'thorough_cmd': f"./check {p['id']} thorough",
        'evidence_file': f"/verif/evidence/{p['id']}.json",
        'replay_cmd_template': './check replay {path}',
        'engine': c.get('engine', 'symnp'),
        'level_claimed': {'category': c.get('category', 'model_checking'), 'text': c['text'], 'design_ref': c.get('design_ref', f"DESIGN.md section 5, {p['id']}")},
        'level_note': c['note'],
        'technique': c['technique'],
    })
na = [{'property_id': p['id'], 'reason': spec['not_applicable'].get(p['id'], 'check not built yet (work in progress); nothing is claimed for this property')}
      for p in props if p['id'] not in spec['checks']]
m = {
    'version': 1,
    'setup_cmd': './bootstrap.sh',
    'hooks': spec['hooks'],
    'engines': spec['engines'],
    'checks': checks,
    'notes': spec['notes'],
    'not_applicable': na,
}
json.dump(m, open(os.path.join(here, 'MANIFEST.json'), 'w'), indent=1)
print('checks:', [c['property_id'] for c in checks], 'not_applicable:', [n['property_id'] for n in na])
