#!/bin/sh
# run_seeds.sh "<letters>" <out.tsv> <scratch worktree> : like run_all_seeds.sh for a subset of seed letters, so that several
# sweeps can run side by side on their own scratch worktrees (never on /repo). Example: tools/run_seeds.sh "C D" /tmp/r_cd.tsv /tmp/sweep_cd
# ONLY="C01 C02" restricts the sweep to those properties.
LETTERS=$1; OUT=$2; W=$3
git -C /repo worktree remove --force $W 2>/dev/null
git -C /repo worktree add --detach $W HEAD >/dev/null 2>&1 || exit 3
export SCARED_REPO=$W VERIF_EVIDENCE_DIR=$W.evidence
: > $OUT
for x in $LETTERS; do
  for d in /verif/seeded/C??/$x; do
    [ -f $d/patch.diff ] || continue
    id=$(echo $d | cut -d/ -f4)
    if [ -n "$ONLY" ]; then case " $ONLY " in *" $id "*) ;; *) continue;; esac; fi
    cd $W && git checkout -q -- . && git apply $d/patch.diff 2>/dev/null || { printf "$id/$x\t-\tpatch-does-not-apply\t0\n" >> $OUT; continue; }
    t0=$(date +%s)
    cd /verif && timeout 1800 ./check $id quick > /tmp/seedrun_${id}_$x.log 2>&1; rc=$?
    t1=$(date +%s)
    git -C $W checkout -q -- .
    v=$(grep -c "^VIOLATION property=$id" /tmp/seedrun_${id}_$x.log)
    printf "$id/$x\t$rc\t$( [ $rc -eq 1 ] && echo caught || ( [ $rc -eq 0 ] && echo MISSED || echo inconclusive ) ) ($v violation lines)\t$((t1-t0))\n" >> $OUT
  done
done
git -C /repo worktree remove --force $W
rm -rf $W.evidence
echo done
