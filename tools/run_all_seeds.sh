#!/bin/sh
# Applies every kept seeded change to /repo in turn, runs the quick check of its property, undoes it, and records the verdict.
OUT=/verif/seeded/RESULTS.tsv
printf "seed\texit\tverdict\twall_s\n" > $OUT
for d in /verif/seeded/C??/A /verif/seeded/C??/B /verif/seeded/C??/C /verif/seeded/C??/D; do
  id=$(echo $d | cut -d/ -f4); x=$(basename $d)
  cd /repo && git checkout -q -- . && git apply $d/patch.diff 2>/dev/null || { printf "$id/$x\t-\tpatch-does-not-apply\t0\n" >> $OUT; continue; }
  t0=$(date +%s)
  cd /verif && timeout 1800 ./check $id quick > /tmp/seedrun_${id}_$x.log 2>&1; rc=$?
  t1=$(date +%s)
  git -C /repo checkout -q -- .
  v=$(grep -c "^VIOLATION property=$id" /tmp/seedrun_${id}_$x.log)
  printf "$id/$x\t$rc\t$( [ $rc -eq 1 ] && echo caught || ( [ $rc -eq 0 ] && echo MISSED || echo inconclusive ) ) ($v violation lines)\t$((t1-t0))\n" >> $OUT
done
git -C /repo checkout -q -- .
echo done
