#!/bin/sh
# Applies every kept seeded change in turn to a scratch worktree of /repo's HEAD (never to /repo itself), runs the quick check of
# its property against that worktree (SCARED_REPO), undoes it, and records the verdict in seeded/RESULTS.tsv.
# Evidence of these mutated runs goes to a scratch directory, not to /verif/evidence.
OUT=/verif/seeded/RESULTS.tsv
W=/tmp/seedsweep_repo
git -C /repo worktree remove --force $W 2>/dev/null
git -C /repo worktree add --detach $W HEAD >/dev/null 2>&1 || exit 3
export SCARED_REPO=$W VERIF_EVIDENCE_DIR=/tmp/seedsweep_evidence
printf "seed\texit\tverdict\twall_s\n" > $OUT
for d in /verif/seeded/C??/A /verif/seeded/C??/B /verif/seeded/C??/C /verif/seeded/C??/D /verif/seeded/C??/E /verif/seeded/C??/F; do
  [ -f $d/patch.diff ] || continue
  id=$(echo $d | cut -d/ -f4); x=$(basename $d)
  cd $W && git checkout -q -- . && git apply $d/patch.diff 2>/dev/null || { printf "$id/$x\t-\tpatch-does-not-apply\t0\n" >> $OUT; continue; }
  t0=$(date +%s)
  cd /verif && timeout 1800 ./check $id quick > /tmp/seedrun_${id}_$x.log 2>&1; rc=$?
  t1=$(date +%s)
  git -C $W checkout -q -- .
  v=$(grep -c "^VIOLATION property=$id" /tmp/seedrun_${id}_$x.log)
  printf "$id/$x\t$rc\t$( [ $rc -eq 1 ] && echo caught || ( [ $rc -eq 0 ] && echo MISSED || echo inconclusive ) ) ($v violation lines)\t$((t1-t0))\n" >> $OUT
done
git -C /repo worktree remove --force $W
rm -rf /tmp/seedsweep_evidence
echo done
