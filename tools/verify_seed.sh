#!/bin/sh
# verify_seed.sh <ID> <X> : confirms a seeded change in its scratch worktree /tmp/wt/<ID>
# (demo fails with the change and passes without it; the pinned baseline still passes with it). Prints one summary line.
ID=$1; X=$2; W=/tmp/wt/$ID; P=$W/_seed/$X
cd $W || exit 2
git checkout -q -- scared
git apply --check $P/patch.diff 2>/dev/null || { echo "$ID/$X patch-does-not-apply"; exit 1; }
PYTHONPATH=$W timeout 300 /venv/bin/python $P/demo.py >/tmp/wt/$ID.$X.clean.log 2>&1; C=$?
git apply $P/patch.diff
PYTHONPATH=$W timeout 300 /venv/bin/python $P/demo.py >/tmp/wt/$ID.$X.mut.log 2>&1; M=$?
python3 /tmp/tools/baseline_check.py $W >/tmp/wt/$ID.$X.base.log 2>&1; B=$?
git checkout -q -- scared
echo "$ID/$X demo_clean=$C demo_mutated=$M baseline=$B $(tail -1 /tmp/wt/$ID.$X.base.log)"
