#!/bin/sh
# verify_seed.sh <ID> <X> : confirms a seeded change in its scratch worktree /tmp/wt/<ID>
# (WT=<root> selects another worktree root, e.g. /tmp/wt2 for the second round)
# (demo fails with the change and passes without it; the pinned baseline still passes with it). Prints one summary line.
ID=$1; X=$2; R=${WT:-/tmp/wt}; W=$R/$ID; P=$W/_seed/$X
cd $W || exit 2
git checkout -q -- scared
git apply --check $P/patch.diff 2>/dev/null || { echo "$ID/$X patch-does-not-apply"; exit 1; }
PYTHONPATH=$W timeout 300 /venv/bin/python $P/demo.py >$R/$ID.$X.clean.log 2>&1; C=$?
git apply $P/patch.diff
PYTHONPATH=$W timeout 300 /venv/bin/python $P/demo.py >$R/$ID.$X.mut.log 2>&1; M=$?
python3 /tmp/tools/baseline_check.py $W >$R/$ID.$X.base.log 2>&1; B=$?
git checkout -q -- scared
echo "$ID/$X demo_clean=$C demo_mutated=$M baseline=$B $(tail -1 $R/$ID.$X.base.log)"
