#!/bin/sh
# try_seed.sh <ID> <X> [tier] : applies a seeded change to a private scratch worktree of /repo's HEAD (never to /repo itself), runs
# the check of its property against that worktree (SCARED_REPO), and removes the worktree. Evidence of the mutated run goes to a scratch directory.
ID=$1; X=$2; T=${3:-quick}
D=/verif/seeded/$ID/$X; [ -f $D/patch.diff ] || D=${WT:-/tmp/wt}/$ID/_seed/$X
W=/tmp/try_wt_${ID}_${X}_$$
git -C /repo worktree add --detach $W HEAD >/dev/null 2>&1 || { echo "cannot create worktree"; exit 3; }
cd $W && git apply $D/patch.diff || { echo "patch does not apply"; git -C /repo worktree remove --force $W; exit 3; }
cd /verif && SCARED_REPO=$W VERIF_EVIDENCE_DIR=$W.evidence ./check $ID $T > /tmp/try_${ID}_${X}.log 2>&1; RC=$?
git -C /repo worktree remove --force $W; rm -rf $W.evidence
grep -E "VIOLATION|KNOWN-FINDING|INCONCLUSIVE|HARNESS-ERROR|UNREPRODUCED|$ID $T" /tmp/try_${ID}_${X}.log | cut -c1-400 | head -12
echo "exit=$RC"
