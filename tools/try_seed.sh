#!/bin/sh
# try_seed.sh <ID> <X> [tier] : applies a seeded change to /repo, runs the check, and undoes it straight afterwards.
ID=$1; X=$2; T=${3:-quick}
D=/verif/seeded/$ID/$X; [ -f $D/patch.diff ] || D=${WT:-/tmp/wt}/$ID/_seed/$X
cd /repo && git apply $D/patch.diff || { echo "patch does not apply"; exit 3; }
cd /verif && ./check $ID $T > /tmp/try_${ID}_${X}.log 2>&1; RC=$?
git -C /repo checkout -- .
grep -E "VIOLATION|KNOWN-FINDING|INCONCLUSIVE|HARNESS-ERROR|UNREPRODUCED|$ID $T" /tmp/try_${ID}_${X}.log | cut -c1-400 | head -12
echo "exit=$RC"
