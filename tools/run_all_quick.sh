#!/bin/sh
# Runs every registered quick check on the current tree (regenerates evidence/*.json); prints one line per check.
cd /verif
for i in 01 02 03 04 05 06 07 08 09 10 11 12 13 14 15 16 17 18 19 20; do
  t0=$(date +%s); ./check C$i ${1:-quick} > /tmp/all_C$i.log 2>&1; rc=$?; t1=$(date +%s)
  echo "C$i exit=$rc $((t1-t0))s $(tail -1 /tmp/all_C$i.log | cut -c1-160)"
done
