#!/usr/bin/env python3
"""Usage: baseline_check.py <repo-dir>  -- runs the pinned test suite in <repo-dir> and checks that every test
listed as stable_pass in /root/.vp/BASELINE.json still passes. Exit 0 iff none of them fails."""
import json, subprocess, sys, tempfile, os, xml.etree.ElementTree as ET
repo = os.path.abspath(sys.argv[1])
base = json.load(open('/root/.vp/BASELINE.json'))
stable = set(base['stable_pass'])
with tempfile.TemporaryDirectory() as d:
    x = os.path.join(d, 'r.xml')
    subprocess.run(['/venv/bin/python', '-m', 'pytest', '-q', '-p', 'no:cacheprovider', '--timeout=900', '--continue-on-collection-errors',
                    '-n', os.environ.get('PYTEST_WORKERS', '0'), f'--junitxml={x}'] if False else
                   ['/venv/bin/python', '-m', 'pytest', '-q', '-p', 'no:cacheprovider', '--timeout=900', '--continue-on-collection-errors', f'--junitxml={x}'],
                   cwd=repo, stdout=subprocess.DEVNULL, stderr=subprocess.DEVNULL)
    passed = set()
    for tc in ET.parse(x).getroot().iter('testcase'):
        ok = not any(ch.tag in ('failure', 'error', 'skipped') for ch in tc)
        if ok:
            passed.add(f"{tc.get('classname')}::{tc.get('name')}")
missing = sorted(stable - passed)
print(f'stable_pass tests: {len(stable)}; passing now: {len(stable & passed)}; broken: {len(missing)}')
for m in missing[:40]:
    print('  BROKEN', m)
sys.exit(1 if missing else 0)
