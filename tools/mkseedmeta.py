#!/usr/bin/env python3
"""Writes seeded/<id>/<X>/meta.json from notes.md, seeded/verify.log and seeded/RESULTS.tsv, and the table for DESIGN.md."""
import json, os, re, glob
here = os.path.dirname(os.path.dirname(os.path.abspath(__file__)))
res = {}
fn = os.path.join(here, 'seeded', 'RESULTS.tsv')
if os.path.exists(fn):
    for l in open(fn).read().splitlines()[1:]:
        p = l.split('\t')
        if len(p) >= 4:
            res[p[0]] = dict(exit=p[1], verdict=p[2], wall_s=p[3])
ver = {}
vl = os.path.join(here, 'seeded', 'verify.log')
if os.path.exists(vl):
    for l in open(vl):
        m = re.match(r'(C\d+)/(\w) demo_clean=(\d+) demo_mutated=(\d+) baseline=(\d+)', l)
        if m:
            ver[f'{m.group(1)}/{m.group(2)}'] = dict(demo_clean=int(m.group(3)), demo_mutated=int(m.group(4)), baseline=int(m.group(5)))
rows = []
for d in sorted(glob.glob(os.path.join(here, 'seeded', 'C??', '[ABCDEF]'))):
    pid, x = d.split('/')[-2:]
    key = f'{pid}/{x}'
    notes = open(os.path.join(d, 'notes.md')).read() if os.path.exists(os.path.join(d, 'notes.md')) else ''
    first = ' '.join(notes.split())[:600]
    files = sorted(set(re.findall(r'^\+\+\+ b/(\S+)', open(os.path.join(d, 'patch.diff')).read(), re.M)))
    meta = dict(property=pid, seed=x, files_changed=files, what_it_needs_to_manifest=first,
                confirmation=dict(procedure='tools/verify_seed.sh: demo on clean worktree (exit 0), apply patch, demo (exit 1), pinned baseline via tools/baseline_check.py (exit 0 = all 892 stable tests pass), undo',
                                  result=ver.get(key, 'see seeded/verify.log / DESIGN.md 0.5 (round-2 or ported seed: confirmed separately in the session)')),
                check=dict(command=f'tools/try_seed.sh {pid} {x}  (git -C /repo apply seeded/{pid}/{x}/patch.diff; ./check {pid} quick; git -C /repo checkout -- .)', result=res.get(key, 'not run yet')))
    json.dump(meta, open(os.path.join(d, 'meta.json'), 'w'), indent=1)
    rows.append((key, ', '.join(os.path.basename(f) for f in files), res.get(key, {}).get('verdict', '?'), res.get(key, {}).get('wall_s', '?')))
print('| seed | files | quick check verdict | wall s |\n|---|---|---|---|')
for r in rows:
    print('| ' + ' | '.join(r) + ' |')
