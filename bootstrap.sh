#!/bin/sh
# Builds /verif/.venv: a venv layered over /venv (numpy, numba, scipy, estraces ... as the repo uses them)
# plus z3-solver, cvc5 and crosshair-tool from the offline wheelhouse. Idempotent; offline.
set -e
HERE="$(cd "$(dirname "$0")" && pwd)"
V="$HERE/.venv"
if [ -x "$V/bin/python" ] && "$V/bin/python" -c "import z3, numpy, numba" >/dev/null 2>&1; then
    exit 0
fi
(
  flock 9
  if [ -x "$V/bin/python" ] && "$V/bin/python" -c "import z3, numpy, numba" >/dev/null 2>&1; then
      exit 0
  fi
  rm -rf "$V"
  /venv/bin/python -m venv "$V"
  SP="$("$V/bin/python" -c 'import sysconfig; print(sysconfig.get_paths()["purelib"])')"
  printf "import site; site.addsitedir('/venv/lib/python3.12/site-packages')\n" > "$SP/_verif_overlay.pth"
  PIP_NO_INDEX=1 "$V/bin/pip" install -q --no-index --find-links /opt/veriftools/wheels z3-solver cvc5 crosshair-tool >/dev/null 2>&1 || \
  PIP_NO_INDEX=1 "$V/bin/pip" install -q --no-index --find-links /opt/veriftools/wheels z3-solver
  "$V/bin/python" -c "import z3, numpy, numba; print('verif venv ready: z3', z3.get_version_string(), 'numpy', numpy.__version__, 'numba', numba.__version__)"
) 9>"$HERE/.venv.lock"
