"""Models of numpy.linalg / numpy.fft used by scared (see DESIGN.md 3.5)."""
import numpy as rnp
import z3
from . import elem as E
from .elem import ShimUnsupported, Cx


class Linalg:
    def __init__(self, np_):
        self._np = np_

    def pinv(self, a, **kw):
        np_ = self._np
        a = np_._w(a)
        if not a.sym:
            return np_._from_real(rnp.linalg.pinv(a.typed(), **kw))
        n = a.shape[0]
        if a.ndim != 2 or a.shape[1] != n:
            raise ShimUnsupported('pinv of a non-square symbolic matrix')
        rdt = rnp.linalg.pinv(rnp.eye(1, dtype=a.dtype)).dtype
        g = lambda i, j: E.to_real(a.c[i, j], a.dtype)  # noqa: E731
        if n == 1:
            v = g(0, 0)
            if E.identically_zero(v):
                out = [[0]]
            else:
                E.CTX.side.append(('pinv-nonsingular', v != 0))
                out = [[E.r_div(1, v)]]
        elif n == 2:
            det = E.r_sub(E.r_mul(g(0, 0), g(1, 1)), E.r_mul(g(0, 1), g(1, 0)))
            E.CTX.side.append(('pinv-nonsingular', det != 0))
            out = [[E.r_div(g(1, 1), det), E.r_div(E.r_neg(g(0, 1)), det)],
                   [E.r_div(E.r_neg(g(1, 0)), det), E.r_div(g(0, 0), det)]]
        else:
            # uninterpreted inverse, a function of the matrix entries (equal matrices get equal inverses)
            args = [g(i, j) for i in range(n) for j in range(n)]
            out = [[z3.Function(f'pinv{n}_{i}_{j}', *([z3.RealSort()] * (n * n + 1)))(*[E.R(x) for x in args]) for j in range(n)] for i in range(n)]
        return np_.from_terms(out, rdt)

    def __getattr__(self, n):
        return self._np._lift(f'linalg.{n}', getattr(rnp.linalg, n))


def _tw(k, n):
    """exp(-2 pi i k / n) exactly, for n in {1, 2, 4}."""
    k %= n
    if n == 1:
        return (1, 0)
    if n == 2:
        return [(1, 0), (-1, 0)][k]
    if n == 4:
        return [(1, 0), (0, -1), (-1, 0), (0, 1)][k]
    raise ShimUnsupported(f'exact DFT only for lengths 1, 2, 4 (got {n})')


class FFT:
    def __init__(self, np_):
        self._np = np_

    def _dft(self, a, axis, nout, inverse=False):
        np_ = self._np
        a = np_._w(a)
        n = a.shape[axis]
        c = rnp.moveaxis(a.c, axis, -1)
        out = rnp.empty(c.shape[:-1] + (nout,), dtype=object)
        for i in rnp.ndindex(c.shape[:-1]):
            xs = [E.as_cx(E.to_real(x, a.dtype) if not isinstance(x, (Cx, complex)) else x) for x in c[i]]
            for k in range(nout):
                acc = Cx(0, 0)
                for j, x in enumerate(xs):
                    tr, ti = _tw(k * j * (-1 if inverse else 1), n)
                    acc = E.c_op('add', acc, E.c_op('mul', x, Cx(tr, ti)))
                if inverse:
                    acc = Cx(E.r_div(acc.re, n), E.r_div(acc.im, n))
                out[i + (k,)] = acc
        return rnp.moveaxis(out, -1, axis)

    def rfft(self, a, n=None, axis=-1, **kw):
        np_ = self._np
        a = np_._w(a)
        if not a.sym:
            return np_._from_real(rnp.fft.rfft(a.typed(), n=n, axis=axis, **kw))
        if n is not None:
            raise ShimUnsupported('rfft with n on symbolic input')
        L = a.shape[axis]
        return np_.ndarray(self._dft(a, axis, L // 2 + 1), rnp.dtype('complex128'))

    def fft(self, a, n=None, axis=-1, **kw):
        np_ = self._np
        a = np_._w(a)
        if not a.sym:
            return np_._from_real(rnp.fft.fft(a.typed(), n=n, axis=axis, **kw))
        if n is not None:
            raise ShimUnsupported('fft with n on symbolic input')
        return np_.ndarray(self._dft(a, axis, a.shape[axis]), rnp.dtype('complex128'))

    def irfft(self, a, n=None, axis=-1, **kw):
        np_ = self._np
        a = np_._w(a)
        if not a.sym:
            return np_._from_real(rnp.fft.irfft(a.typed(), n=n, axis=axis, **kw))
        m = a.shape[axis]
        N = 2 * (m - 1) if n is None else n
        # rebuild the full Hermitian spectrum, numpy discards the imaginary part of the DC / Nyquist terms
        c = rnp.moveaxis(a.c, axis, -1)
        full = rnp.empty(c.shape[:-1] + (N,), dtype=object)
        for i in rnp.ndindex(c.shape[:-1]):
            for k in range(N):
                if k < m:
                    x = E.as_cx(c[i + (k,)])
                    if k == 0 or (N % 2 == 0 and k == N // 2):
                        x = Cx(x.re, 0)
                else:
                    y = E.as_cx(c[i + (N - k,)])
                    x = Cx(y.re, E.r_neg(y.im))
                full[i + (k,)] = x
        tmp = np_.ndarray(rnp.moveaxis(full, -1, axis), rnp.dtype('complex128'))
        r = self._dft(tmp, axis, N, inverse=True)
        return np_.ndarray(np_._map1(lambda x: E.as_cx(x).re, r), rnp.dtype('float64'))

    def __getattr__(self, n):
        return self._np._lift(f'fft.{n}', getattr(rnp.fft, n))
