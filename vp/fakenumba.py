"""A stand-in for numba: kernels are interpreted (their own Python bytecode) on the shim, in numba mode.

numba mode (CTX.numba > 0) types scalar arithmetic with numba's own typing context (see symnp._nb_binop);
prange is range (plus a footprint log used for the iteration-independence check)."""
import types as _types
import functools
import numpy as rnp
from . import symnp
from .elem import CTX

KERNEL_CALLS = []      # (qualname) of every kernel entered; harnesses read and clear it


class _Type:
    def __init__(self, name):
        self.name = name
        self.dtype = rnp.dtype(name)

    def __call__(self, *args):
        if args and all(isinstance(a, _Type) for a in args):
            return _Sig(self, args)
        # used as a cast inside a kernel
        return symnp._w(args[0]).astype(self.dtype) if symnp._is_shim(args[0]) else self.dtype.type(args[0])

    def __repr__(self):
        return f'numba.{self.name}'


class _Sig:
    def __init__(self, ret, args):
        self.ret, self.args = ret, args


def _kernel(f, kind):
    @functools.wraps(f)
    def w(*a, **k):
        KERNEL_CALLS.append(f.__qualname__)
        CTX.numba += 1
        try:
            return f(*[symnp.fake_scalar_type(x) for x in a], **k)
        finally:
            CTX.numba -= 1
    w.__wrapped_kernel__ = f
    w.py_func = f
    return w


def njit(*a, **k):
    if a and callable(a[0]) and not k:
        return _kernel(a[0], 'njit')
    return lambda f: _kernel(f, 'njit')


jit = njit


def vectorize(sigs=None, **kw):
    def deco(f):
        slist = sigs if isinstance(sigs, (list, tuple)) else []

        def vf(*arrs):
            ws = [symnp._w(x) for x in arrs]
            # pick the first signature the inputs can be safely cast to (numpy ufunc dispatch)
            chosen = None
            for s in slist:
                if len(s.args) == len(ws) and all(rnp.can_cast(w.dtype, t.dtype, 'safe') for w, t in zip(ws, s.args)):
                    chosen = s
                    break
            if chosen is None and slist:
                raise TypeError(f"ufunc '{f.__name__}' not supported for the input types, and the inputs could not be safely coerced")
            ins = [w.astype(t.dtype) if w.dtype != t.dtype else w for w, t in zip(ws, chosen.args)] if chosen else ws
            KERNEL_CALLS.append(f.__qualname__)
            CTX.numba += 1
            try:
                bc = rnp.broadcast(*[w.c for w in ins]) if len(ins) > 1 else None
                shape = bc.shape if bc is not None else ins[0].shape
                out = rnp.empty(shape, dtype=object)
                rdt = chosen.ret.dtype if chosen else None
                cs = [rnp.broadcast_to(w.c, shape) for w in ins]
                for i in rnp.ndindex(shape):
                    args = [w._scalar(c[i]) if not isinstance(c[i], rnp.generic) else c[i] for w, c in zip(ins, cs)]
                    args = [symnp.ndarray_impl(symnp._obj0(a.item()), a.dtype, [False]) if isinstance(a, rnp.generic) else a for a in args]
                    r = f(*args)
                    rw = symnp._w(r) if not isinstance(r, (int, float, bool)) else symnp._w(rnp.asarray(r))
                    if rdt is not None and rw.dtype != rdt:
                        rw = rw.astype(rdt)
                    out[i] = rw.c.reshape(-1)[0]
                res = symnp.ndarray_impl(out, rdt if rdt is not None else rw.dtype)
                return res if res.ndim else res._scalar(res.c[()])
            finally:
                CTX.numba -= 1
        vf.__name__ = f.__name__
        vf.py_func = f
        return vf
    return deco


class _PRange:
    """range that records, per iteration, the array elements read and written (CTX.footprint)."""

    def __call__(self, *a):
        fp = CTX.prange_log
        if fp is None:
            return range(*a)
        return self._gen(range(*a), fp)

    @staticmethod
    def _gen(r, fp):
        loop = []
        fp.append(loop)
        old = CTX.footprint
        try:
            for i in r:
                CTX.footprint = []
                loop.append((i, CTX.footprint))
                yield i
        finally:
            CTX.footprint = old


prange = _PRange()
CTX.prange_log = None
NUM_THREADS = [16]


def get_num_threads():
    return NUM_THREADS[0]


def set_num_threads(n):
    NUM_THREADS[0] = int(n)


def make_module():
    m = _types.ModuleType('numba')
    m.njit = njit
    m.jit = jit
    m.vectorize = vectorize
    m.prange = prange
    m.get_num_threads = get_num_threads
    m.set_num_threads = set_num_threads
    m.config = _types.SimpleNamespace(NUMBA_NUM_THREADS=16)
    for n in ('int8', 'int16', 'int32', 'int64', 'uint8', 'uint16', 'uint32', 'uint64', 'float32', 'float64'):
        setattr(m, n, _Type(n))
    m.boolean = _Type('bool')
    m.__version__ = 'shim'
    return m
