"""symx: re-execution based path executor over z3 path conditions.

A harness is a Python callable `fn(ex)`.  While it runs, code that needs a concrete decision on a
symbolic condition calls `ex.branch(cond)` (or `ex.concretize(term)` for an integer).  The executor
asks z3 which outcomes are feasible under the current path condition, follows one and queues the
decision prefix of the other; `run` re-executes `fn` once per queued prefix until the work list is
empty or the path budget is exhausted (then `exhausted` is set and the harness must end inconclusive).
"""
import time
import threading
import z3


def hard_check(solver, seconds):
    """solver.check() with a limit that is enforced by interrupting the context (z3's own timeout is not reliable on large miters)."""
    done = threading.Event()

    def fire():
        if not done.is_set():
            solver.ctx.interrupt()
    tm = threading.Timer(seconds, fire)
    tm.daemon = True
    tm.start()
    try:
        return solver.check()
    finally:
        done.set()
        tm.cancel()


def forked_check(solver, extra, seconds, symbols):
    """check() in a forked child that is killed after `seconds` (the only limit z3 cannot ignore).
    Returns (verdict, {symbol name: value string} or None)."""
    import os, json, select, signal
    rd, wr = os.pipe()
    pid = os.fork()
    if pid == 0:
        try:
            os.close(rd)
            try:                                # die with the worker (PR_SET_PDEATHSIG, SIGKILL)
                import ctypes
                ctypes.CDLL('libc.so.6').prctl(1, 9)
            except Exception:
                pass
            solver.push()
            if extra:
                solver.add(*extra)
            res = solver.check()
            out = {'r': str(res)}
            if res == z3.sat:
                m = solver.model()
                out['m'] = {n: str(m.eval(c, model_completion=True)) for n, c in symbols}
            os.write(wr, json.dumps(out).encode())
        except BaseException as ex_:  # noqa: B902
            try:
                os.write(wr, json.dumps({'r': 'unknown', 'err': str(ex_)}).encode())
            except Exception:
                pass
        finally:
            os._exit(0)
    os.close(wr)
    buf = b''
    deadline = time.time() + seconds
    try:
        while True:
            left = deadline - time.time()
            if left <= 0:
                break
            ready, _, _ = select.select([rd], [], [], left)
            if not ready:
                break
            chunk = os.read(rd, 1 << 20)
            if not chunk:
                break
            buf += chunk
    finally:
        os.close(rd)
        try:
            os.kill(pid, signal.SIGKILL)
        except ProcessLookupError:
            pass
        os.waitpid(pid, 0)
    if not buf:
        return 'unknown', None
    try:
        out = json.loads(buf.decode())
    except ValueError:
        return 'unknown', None
    return out['r'], out.get('m')


def _parse_values(text):
    """Parse the answer of (get-value (...)) into {name: value string} (bit-vectors and integers as decimal, rationals as a/b)."""
    import re
    out = {}
    for m in re.finditer(r'\((\|[^|]+\||[^\s()]+)\s+(#x[0-9a-fA-F]+|#b[01]+|true|false|-?\d+(?:\.\d+)?|\(-\s+[^()]+\)|\(/\s+[^()]*(?:\([^()]*\))?[^()]*\)|\(-\s+\(/[^()]+\)\))\)', text):
        name, v = m.group(1).strip('|'), m.group(2)
        if v.startswith('#x'):
            v = str(int(v[2:], 16))
        elif v.startswith('#b'):
            v = str(int(v[2:], 2))
        elif v in ('true', 'false'):
            v = 'True' if v == 'true' else 'False'
        else:
            neg = v.count('-') % 2 == 1
            nums = [n_[:-2] if n_.endswith('.0') else n_ for n_ in re.findall(r'\d+(?:\.\d+)?', v)]
            if '/' in v and len(nums) >= 2:
                v = f'{nums[0]}/{nums[1]}'
            elif nums:
                v = nums[0]
            if neg:
                v = '-' + v
        out[name] = v
    return out


def external_check(assertions, symbols, seconds=60):
    """Second-opinion / portfolio solving with the cvc5 and z3 4.8 binaries (killable subprocesses).
    Returns (verdict, {name: value string} or None, tool)."""
    import subprocess, tempfile, os, shutil
    s = z3.Solver()
    s.add(*assertions)
    body = s.to_smt2()
    text = '(set-option :produce-models true)\n(set-logic ALL)\n' + body
    names = [z3.Z3_ast_to_string(c.ctx_ref(), c.as_ast()) for _, c in symbols]
    names = [n for n in names if f'(declare-fun {n} ' in body]
    if names:
        text += '(get-value (' + ' '.join(names) + '))\n'
    fd, path = tempfile.mkstemp(suffix='.smt2')
    with os.fdopen(fd, 'w') as f:
        f.write(text)
    try:
        for tool, args in (('cvc5', ['--tlimit=%d' % int(seconds * 1000)]), ('/usr/bin/z3', ['-T:%d' % int(seconds)])):
            exe = shutil.which(tool) or (tool if os.path.exists(tool) else None)
            if not exe:
                continue
            try:
                p = subprocess.run([exe] + args + [path], capture_output=True, text=True, timeout=seconds + 10)
            except subprocess.TimeoutExpired:
                continue
            lines = p.stdout.strip().splitlines()
            if not lines or '(error' in p.stdout.split('\n')[0]:
                continue
            if lines[0].strip() == 'unsat':
                return 'unsat', None, tool
            if lines[0].strip() == 'sat':
                return 'sat', _parse_values('\n'.join(lines[1:])), tool
        return 'unknown', None, None
    finally:
        os.unlink(path)


class Abort(BaseException):
    """Current path is infeasible / was cut; derived from BaseException so that `except Exception` in the code under test does not swallow it."""


class Budget(BaseException):
    pass


class Executor:
    def __init__(self, max_paths=20000, timeout_ms=20000, logic=None):
        self.solver = z3.Solver() if logic is None else z3.SolverFor(logic)
        self.solver.set('timeout', timeout_ms)
        self.hard_limit = timeout_ms / 1000.0 + 2
        self.max_paths = max_paths
        self.work = [[]]
        self.paths = 0
        self.aborted = 0
        self.queries = 0
        self.solver_s = 0.0
        self.unknowns = 0
        self.exhausted = False
        self.pc = []
        self.prefix = []
        self.pos = 0
        self._depth = 0

    # -- exploration -------------------------------------------------------------------------
    def run(self, fn):
        results = []
        while self.work:
            if self.paths >= self.max_paths:
                self.exhausted = True
                break
            self.prefix = self.work.pop()
            self.pos = 0
            self.pc = []
            while self._depth:
                self.solver.pop()
                self._depth -= 1
            self.paths += 1
            try:
                results.append(fn(self))
            except Abort:
                self.aborted += 1
        while self._depth:
            self.solver.pop()
            self._depth -= 1
        return results

    def _push(self, c):
        self.pc.append(c)
        self.solver.push()
        self._depth += 1
        self.solver.add(c)

    def _check(self, *extra, limit=None):
        t = time.time()
        self.solver.push()
        if extra:
            self.solver.add(*extra)
        r = self.solver.check()
        m = self.solver.model() if r == z3.sat else None
        self.solver.pop()
        self.queries += 1
        self.solver_s += time.time() - t
        if r == z3.unknown:
            self.unknowns += 1
        return str(r), m

    def check(self, *conds):
        return self._check(*conds)

    def assume(self, cond):
        """Add an assumption to the path condition (must be satisfiable, else the path is cut)."""
        if isinstance(cond, bool):
            if not cond:
                raise Abort()
            return
        c = z3.simplify(cond)
        if z3.is_true(c):
            return
        if z3.is_false(c):
            raise Abort()
        self._push(c)

    def feasible(self):
        r, _ = self._check()
        return r != 'unsat'

    def branch(self, cond):
        if isinstance(cond, bool):
            return cond
        c = z3.simplify(cond)
        if z3.is_true(c):
            return True
        if z3.is_false(c):
            return False
        if self.pos < len(self.prefix):
            d = self.prefix[self.pos][0]
        else:
            rt, _ = self._check(c)
            rf, _ = self._check(z3.Not(c))
            t_ok, f_ok = rt != 'unsat', rf != 'unsat'
            if t_ok and f_ok:
                self.work.append(self.prefix[:self.pos] + [(False, None)])
                d = True
            elif t_ok:
                d = True
            elif f_ok:
                d = False
            else:
                raise Abort()
            self.prefix = self.prefix[:self.pos] + [(d, None)]
        self.pos += 1
        self._push(c if d else z3.Not(c))
        return d

    def concretize(self, term, lo=None, hi=None):
        """Fork over the feasible integer values of `term` (an Int or BitVec term)."""
        t = z3.simplify(term)
        if z3.is_int_value(t) or z3.is_bv_value(t):
            return t.as_long() if not z3.is_bv(t) else t.as_long()
        while True:
            if self.pos < len(self.prefix):
                d, v = self.prefix[self.pos]
            else:
                r, m = self._check()
                if r != 'sat':
                    if r == 'unknown':
                        raise Budget('unknown while concretizing')
                    raise Abort()
                mv = m.eval(t, model_completion=True)
                v = mv.as_long()
                ro, _ = self._check(t != mv)
                if ro != 'unsat':
                    self.work.append(self.prefix[:self.pos] + [(False, v)])
                d = True
                self.prefix = self.prefix[:self.pos] + [(d, v)]
            self.pos += 1
            val = z3.BitVecVal(v, t.size()) if z3.is_bv(t) else z3.IntVal(v)
            if d:
                self._push(t == val)
                return v
            self._push(t != val)

    def choose(self, n, tag=None):
        """Harness-level nondeterministic choice among range(n) (not solver-constrained)."""
        if self.pos < len(self.prefix):
            d = self.prefix[self.pos][0]
        else:
            for alt in range(n - 1, 0, -1):
                self.work.append(self.prefix[:self.pos] + [(alt, tag)])
            d = 0
            self.prefix = self.prefix[:self.pos] + [(d, tag)]
        self.pos += 1
        return d

    # -- obligations --------------------------------------------------------------------------
    def prove_forked(self, goal, seconds, symbols):
        """Like prove, but in a killable child; a countermodel comes back as {symbol name: value string}."""
        t = time.time()
        r, vals = forked_check(self.solver, [z3.Not(goal)], seconds, symbols)
        self.queries += 1
        self.solver_s += time.time() - t
        return r, vals

    def prove_external(self, goal, seconds, symbols):
        t = time.time()
        r, vals, tool = external_check(list(self.pc) + [z3.Not(goal)], symbols, seconds)
        self.queries += 1
        self.solver_s += time.time() - t
        return r, vals, tool

    def prove(self, goal, extra=(), limit=None):
        """Returns ('unsat', None) when pc /\\ extra => goal, ('sat', model) with a countermodel, or ('unknown', None)."""
        if isinstance(goal, bool):
            if goal:
                return 'unsat', None
            r, m = self._check(*extra)
            return ('sat', m) if r == 'sat' else (r if r == 'unknown' else 'unsat', None)
        g = z3.simplify(goal)
        if z3.is_true(g):
            return 'unsat', None
        return self._check(z3.Not(g), *extra, limit=limit)

    def stats(self):
        return dict(paths=self.paths, aborted=self.aborted, queries=self.queries, solver_s=round(self.solver_s, 3),
                    unknowns=self.unknowns, exhausted=self.exhausted)
