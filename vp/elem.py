"""Element algebra of the symbolic numpy shim.

An array element is either a concrete Python scalar (bool / int / float / complex, as produced by
ndarray.astype(object)) or a z3 term:
  BitVecRef  - integer of the width of the holding dtype (signedness comes from the dtype)
  ArithRef   - Int sort: mathematical integer ("no wrap" integer, used for counters / class labels)
               Real sort: a *finite* float; NaN / +-inf are always concrete Python floats
  BoolRef    - boolean
Operations are carried out at a *loop dtype* obtained from real numpy (or numba's typing context).
"""
import math
import fractions
import numpy as rnp
import z3

Fraction = fractions.Fraction


class ShimUnsupported(Exception):
    pass


class Ctx:
    """Per-run state shared by the shim (reset by harnesses through `reset`)."""

    def __init__(self):
        self.reset()

    def reset(self, ex=None, float_mode='regular', precision=None, exact=False):
        self.exact = exact            # concrete float arithmetic is carried out exactly (Fractions) instead of in floating point
        self.ex = ex                  # symx.Executor or None
        self.float_mode = float_mode  # 'regular': record side conditions; 'fork': branch on zero denominators / negative radicands
        self.precision = precision    # numpy dtype: operations in a narrower float type get rounding marks
        self.side = []                # recorded side conditions [(kind, z3 cond)]
        self.sqrts = []               # [(symbol, radicand)]
        self.symbols = {}             # name -> (z3 const, [seeded values])
        self.numba = 0                # >0 while a numba kernel is being interpreted
        self.footprint = None         # list used by prange footprint logging
        self.stats = {'sqrt_checks': 0, 'zero_checks': 0, 'lookups': 0}
        self.fresh = 0
        self.notes = []
        self.residue = False          # a symbolic value that is zero only by algebraic cancellation is, in floating point, a rounding residue of unknown sign: fork on it
        self.int_range = False        # record ('int-range', lo <= r <= hi) for integer-dtype arithmetic on integer / real valued terms (which do not wrap by themselves)


CTX = Ctx()
_PT_SEEDS = 3


def is_sym(e):
    return isinstance(e, z3.ExprRef)


def is_special(e):
    return isinstance(e, float) and (e != e or e in (math.inf, -math.inf))


def register(const, values=None):
    """Register an input symbol with seeded evaluation points (used for identity refutation)."""
    name = str(const)
    if values is None:
        import random
        import zlib
        r = random.Random(zlib.crc32(name.encode()))          # deterministic across processes (str hashes are randomised)
        values = [r.choice((-11, -7, -5, -3, -2, 2, 3, 5, 7, 11, 13)) + r.choice((0, 17, 34)) for _ in range(_PT_SEEDS)]
    CTX.symbols[name] = (const, values)
    return const


_RV = {}


def R(c):
    """Concrete finite number -> z3 Real value (exact)."""
    if is_sym(c):
        return c
    if isinstance(c, bool):
        c = int(c)
    k = (type(c).__name__, c)
    v = _RV.get(k)
    if v is None:
        if isinstance(c, int):
            v = z3.RealVal(c)
        else:
            f = Fraction(c)
            v = z3.RealVal(f'{f.numerator}/{f.denominator}')
        if len(_RV) < 100000:
            _RV[k] = v
    return v


def eval_at(t, k):
    """Value of term t at seeded point k (all registered symbols substituted); None when not a numeral."""
    subs = []
    for name, (c, vals) in CTX.symbols.items():
        v = vals[k % len(vals)]
        if z3.is_bv(c):
            subs.append((c, z3.BitVecVal(v, c.size())))
        elif c.is_int():
            subs.append((c, z3.IntVal(v)))
        else:
            subs.append((c, R(v)))
    r = z3.simplify(z3.substitute(t, *subs)) if subs else z3.simplify(t)
    if z3.is_rational_value(r) or z3.is_int_value(r):
        return Fraction(r.numerator_as_long(), r.denominator_as_long()) if z3.is_rational_value(r) else Fraction(r.as_long())
    if z3.is_algebraic_value(r):
        return float(r.approx(20).as_fraction())
    return None


def _solver_check(*conds, timeout=5000):
    if CTX.ex is not None:
        r, _ = CTX.ex.check(*conds)
        return r
    s = z3.Solver()
    s.set('timeout', timeout)
    s.add(*conds)
    return str(s.check())


def differs(a, b):
    """Sound refutation of a == b: they take different values at a seeded point."""
    for k in range(_PT_SEEDS):
        va, vb = eval_at(a, k), eval_at(b, k)
        if va is not None and vb is not None and va != vb:
            return True
    return False


def identically_zero(t):
    """True iff t is provably zero under the current path condition (cheap refutation first)."""
    CTX.stats['zero_checks'] += 1
    s = z3.simplify(t)
    if z3.is_rational_value(s) or z3.is_int_value(s):
        return s.numerator_as_long() == 0 if z3.is_rational_value(s) else s.as_long() == 0
    # "identically zero" is meant as a polynomial identity (degenerate scenarios are built by substitution): one seeded point
    # with a non-zero value refutes it; a term that cannot be evaluated (rounding marks, function symbols) is not treated as zero
    for k in range(_PT_SEEDS):
        v = eval_at(s, k)
        if v is None or v != 0:
            return False
    return _solver_check(s != 0) == 'unsat'


# ---------------------------------------------------------------------------------------------
# casts


def conc_cast(e, src, dst):
    """Concrete element -> concrete element of dtype dst with numpy's C-cast semantics."""
    with rnp.errstate(all='ignore'):
        a = rnp.asarray(e, dtype=src) if src is not None else rnp.asarray(e)
        if a.dtype == object:
            a = rnp.asarray(e.item() if hasattr(e, 'item') else e)
        return a.astype(dst).item()


def to_real(e, src):
    if not is_sym(e):
        if isinstance(e, complex):
            return e.real
        return e
    if z3.is_bv(e):
        return z3.ToReal(z3.BV2Int(e, is_signed=(src is not None and src.kind == 'i')))
    if z3.is_bool(e):
        return z3.If(e, R(1), R(0))
    if e.is_int():
        return z3.ToReal(e)
    return e


def trunc_int(e):
    """Real term -> Int term, truncation toward zero (C / numpy / numba float->int cast)."""
    return z3.If(e >= 0, z3.ToInt(e), -z3.ToInt(-e))


def to_int(e, src, dst):
    w = dst.itemsize * 8
    if not is_sym(e):
        return conc_cast(e, src, dst)
    if z3.is_bv(e):
        if src is not None and src.kind in 'iu' and src.itemsize * 8 == w:
            return e
        ws = e.size()
        if ws == w:
            return e
        if ws > w:
            return z3.Extract(w - 1, 0, e)
        return z3.SignExt(w - ws, e) if (src is not None and src.kind == 'i') else z3.ZeroExt(w - ws, e)
    if z3.is_bool(e):
        return z3.If(e, z3.BitVecVal(1, w), z3.BitVecVal(0, w))
    if e.is_int():
        return e
    if src is not None and src.kind in 'iub':
        return e          # a real-sorted term held in an integer-dtype array is an integer-valued symbol: no truncation
    return trunc_int(e)


def to_bool(e, src):
    if not is_sym(e):
        return bool(e)
    if z3.is_bool(e):
        return e
    if z3.is_bv(e):
        return e != z3.BitVecVal(0, e.size())
    return e != 0


def cast(e, src, dst):
    """Element of dtype src (None: Python scalar) -> element of dtype dst."""
    k = dst.kind
    if k == 'O':
        return e
    if isinstance(e, Cx):
        if k == 'c':
            return e
        return cast(e.re, None, dst)
    if not is_sym(e):
        if src is not None and src == dst and not isinstance(e, (rnp.generic,)):
            return e
        return conc_cast(e, src, dst)
    if k == 'f':
        r = to_real(e, src)
        return mark_round(r, src, dst)
    if k in 'iu':
        return to_int(e, src, dst)
    if k == 'b':
        return to_bool(e, src)
    if k == 'c':
        return Cx(to_real(e, src), 0)
    raise ShimUnsupported(f'cast to {dst}')


_RND = {}


def rnd_fn(dt):
    f = _RND.get(dt.name)
    if f is None:
        f = _RND[dt.name] = z3.Function(f'rnd_{dt.name}', z3.RealSort(), z3.RealSort())
    return f


def mark_round(r, src, dst):
    """Rounding mark for a conversion into a float type narrower than the requested precision."""
    p = CTX.precision
    if p is None or not is_sym(r) or dst.itemsize >= p.itemsize:
        return r
    if src is not None and src.kind == 'f' and src.itemsize <= dst.itemsize:
        return r
    if src is not None and src.kind in 'iub' and src.itemsize * 8 <= {2: 11, 4: 24, 8: 53}[dst.itemsize]:
        return r      # every value of the integer type is exactly representable
    return rnd_fn(dst)(r)


def mark_op(r, ld):
    p = CTX.precision
    if p is None or not is_sym(r) or ld.kind != 'f' or ld.itemsize >= p.itemsize:
        return r
    return rnd_fn(ld)(r)


# ---------------------------------------------------------------------------------------------
# complex numbers (only the FFT based preprocesses need them)


class Cx:
    __slots__ = ('re', 'im')

    def __init__(self, re, im=0):
        self.re, self.im = re, im

    def __repr__(self):
        return f'Cx({self.re}, {self.im})'


def as_cx(e):
    if isinstance(e, Cx):
        return e
    if isinstance(e, complex):
        return Cx(e.real, e.imag)
    return Cx(e, 0)


# ---------------------------------------------------------------------------------------------
# real (finite float) arithmetic with special values


def _conc_num(x):
    return not is_sym(x)


def _is_zero(x):
    return _conc_num(x) and not is_special(x) and x == 0


def _is_one(x):
    return _conc_num(x) and not is_special(x) and x == 1


def r_add(x, y):
    if _conc_num(x) and _conc_num(y):
        return x + y
    if is_special(x) or is_special(y):
        return (x if is_special(x) else 0.0) + (y if is_special(y) else 0.0)
    if _is_zero(x):
        return y
    if _is_zero(y):
        return x
    return R(x) + R(y)


def r_neg(x):
    if _conc_num(x):
        return -x
    return -x


def r_sub(x, y):
    if _conc_num(x) and _conc_num(y):
        return x - y
    if is_special(x) or is_special(y):
        return (x if is_special(x) else 0.0) - (y if is_special(y) else 0.0)
    if _is_zero(y):
        return x
    if _is_zero(x):
        return -y
    return R(x) - R(y)


def _sign_of(x):
    """-1 / 0 / +1 for a finite element, forking when it is symbolic."""
    if _conc_num(x):
        return (x > 0) - (x < 0)
    if identically_zero(x):
        if CTX.residue and CTX.ex is not None:
            return (0, 1, -1)[CTX.ex.choose(3, 'rounding-residue')]
        return 0
    if CTX.ex is None:
        raise ShimUnsupported('sign of a symbolic value needed without an executor')
    if CTX.ex.branch(x > 0):
        return 1
    if CTX.ex.branch(x < 0):
        return -1
    return 0


def r_mul(x, y):
    if _conc_num(x) and _conc_num(y):
        if is_special(x) or is_special(y):
            return float(x) * float(y)
        return x * y
    if is_special(x) or is_special(y):
        s, o = (x, y) if is_special(x) else (y, x)
        if s != s:
            return math.nan
        sg = _sign_of(o)
        return math.nan if sg == 0 else s * sg
    if _is_zero(x) or _is_zero(y):
        return 0 if not isinstance(x, float) and not isinstance(y, float) else 0.0
    if _is_one(x):
        return y
    if _is_one(y):
        return x
    return R(x) * R(y)


def _div_by_zero(x):
    if is_special(x):
        return x if x != x else x  # nan/0 = nan, inf/0 = inf
    sg = _sign_of(x)
    return math.nan if sg == 0 else sg * math.inf


def r_div(x, y):
    if _conc_num(x) and _conc_num(y):
        if is_special(x) or is_special(y) or y == 0:
            with rnp.errstate(all='ignore'):
                return (rnp.float64(x) / rnp.float64(y)).item()
        if isinstance(x, float) or isinstance(y, float):
            return x / y
        try:
            q = Fraction(x) / Fraction(y)
        except TypeError:
            raise ShimUnsupported(f"division of {type(x).__name__} {x!r} by {type(y).__name__} {y!r}")
        return int(q) if q.denominator == 1 else q
    if is_special(y):
        if y != y or is_special(x):
            return math.nan if (y != y or x != x or is_special(x)) else 0.0
        return 0.0
    if _conc_num(y):
        if y == 0:
            return _div_by_zero(x)
        if is_special(x):
            return x if x != x else x * ((y > 0) - (y < 0))
        return R(x) / R(y)
    # symbolic denominator
    if is_special(x) and x != x:
        return x                      # NaN / anything = NaN: no condition on the denominator is needed
    if identically_zero(y):
        return _div_by_zero(x)
    if CTX.float_mode == 'fork':
        if CTX.ex.branch(y == 0):
            return _div_by_zero(x)
    else:
        CTX.side.append(('den!=0', y != 0))
    if is_special(x):
        if x != x:
            return x
        sg = _sign_of(y)
        return x * sg
    if _is_zero(x):
        return x
    return R(x) / y


def r_sqrt(x):
    if _conc_num(x):
        if is_special(x):
            return x if x != -math.inf else math.nan
        if x < 0:
            return math.nan
        s = math.sqrt(x)
        if isinstance(x, int) and int(s) * int(s) == x:
            return int(s)
        if isinstance(x, Fraction):
            n, d = math.isqrt(x.numerator), math.isqrt(x.denominator)
            if n * n == x.numerator and d * d == x.denominator:
                return Fraction(n, d)
        return s
    if identically_zero(x):
        return 0
    if CTX.float_mode == 'fork':
        if CTX.ex.branch(x < 0):
            return math.nan
    for sym, rad in CTX.sqrts:
        if not x.eq(rad):
            same = True
            for k in range(_PT_SEEDS):
                va, vb = eval_at(x, k), eval_at(rad, k)
                if va is None or vb is None or va != vb:
                    same = False
                    break
            if not same:
                continue
            CTX.stats['sqrt_checks'] += 1
            sol = z3.Solver()
            sol.set('timeout', 5000)
            sol.add(x != rad)
            if sol.check() != z3.unsat:
                continue
        return sym
    sym = z3.Real(f'sqrt!{len(CTX.sqrts)}')
    CTX.sqrts.append((sym, x))
    if CTX.float_mode != 'fork':
        CTX.side.append(('rad>=0', x >= 0))
    return sym


def r_pow(x, y):
    if _conc_num(x) and _conc_num(y):
        with rnp.errstate(all='ignore'):
            return (rnp.float64(x) ** rnp.float64(y)).item()
    if is_sym(y):
        raise ShimUnsupported('symbolic exponent')
    if is_special(x):
        raise ShimUnsupported('power of a special value')
    if y == int(y) and 0 <= int(y) <= 8:
        r = 1
        for _ in range(int(y)):
            r = r_mul(r, x)
        return r
    if y == 0.5:
        return r_sqrt(x)
    if y == 1.5:
        return r_mul(x, r_sqrt(x))
    if y == int(y) and -8 <= int(y) < 0:
        return r_div(1, r_pow(x, -int(y)))
    raise ShimUnsupported(f'power {y}')


def r_abs(x):
    if _conc_num(x):
        return abs(x)
    return z3.If(x >= 0, x, -x)


_LN = z3.Function('ln', z3.RealSort(), z3.RealSort())


def r_log(x):
    if _conc_num(x):
        if is_special(x):
            return x if x != -math.inf else math.nan
        if x == 1:
            return 0
        if x == 0:
            return -math.inf
        if x < 0:
            return math.nan
        return _LN(R(x))
    return _LN(x)


def r_cmp(op, x, y):
    if _conc_num(x) and _conc_num(y):
        return {'lt': x < y, 'le': x <= y, 'gt': x > y, 'ge': x >= y, 'eq': x == y, 'ne': x != y}[op]
    if is_special(x) or is_special(y):
        s = x if is_special(x) else y
        if s != s:
            return op == 'ne'
        # +-inf against a finite symbolic value
        big = (s > 0)
        if is_special(x):
            return {'lt': not big, 'le': not big, 'gt': big, 'ge': big, 'eq': False, 'ne': True}[op]
        return {'lt': big, 'le': big, 'gt': not big, 'ge': not big, 'eq': False, 'ne': True}[op]
    a, b = R(x), R(y)
    return {'lt': a < b, 'le': a <= b, 'gt': a > b, 'ge': a >= b, 'eq': a == b, 'ne': a != b}[op]


# ---------------------------------------------------------------------------------------------
# integer arithmetic


_BVV = {}


def _bvv(v, w):
    k = (int(v), w)
    r = _BVV.get(k)
    if r is None:
        r = z3.BitVecVal(k[0], w)
        if len(_BVV) < 200000:
            _BVV[k] = r
    return r


def _as_int_term(e, signed):
    if z3.is_bv(e):
        return z3.BV2Int(e, is_signed=signed)
    if z3.is_bool(e):
        return z3.If(e, z3.IntVal(1), z3.IntVal(0))
    return e


def i_op(op, x, y, ld):
    """Integer operation at loop dtype ld; x, y already cast to ld (BV of width w, Int term, or Python int)."""
    w = ld.itemsize * 8
    signed = ld.kind == 'i'
    xs, ys = is_sym(x), is_sym(y)
    int_mode = (xs and not z3.is_bv(x)) or (ys and not z3.is_bv(y))
    if int_mode:
        a = _as_int_term(x, signed) if xs else z3.IntVal(int(x))
        b = _as_int_term(y, signed) if ys else z3.IntVal(int(y))
        if (z3.is_arith(a) and a.is_real()) or (z3.is_arith(b) and b.is_real()):
            a = z3.ToReal(a) if a.is_int() else a
            b = z3.ToReal(b) if b.is_int() else b
        if op in ('add', 'sub', 'mul'):
            if op == 'mul' and (not xs and int(x) == 0 or not ys and int(y) == 0):
                return 0
            r = a + b if op == 'add' else (a - b if op == 'sub' else a * b)
            if CTX.int_range and w < 64:
                # mathematical integers stand in for machine words here: the result is only right where it fits the dtype
                lo, hi = (-(1 << (w - 1)), (1 << (w - 1)) - 1) if signed else (0, (1 << w) - 1)
                CTX.side.append((f'int-range-{ld}', z3.And(r >= lo, r <= hi)))
            return r
        if op in ('lt', 'le', 'gt', 'ge', 'eq', 'ne'):
            return {'lt': a < b, 'le': a <= b, 'gt': a > b, 'ge': a >= b, 'eq': a == b, 'ne': a != b}[op]
        if op == 'floordiv' and not ys:
            return a / b
        if op == 'mod' and not ys:
            return a % b
        raise ShimUnsupported(f'integer-term operation {op}')
    a = x if xs else _bvv(x, w)
    b = y if ys else _bvv(y, w)
    if op == 'xor':
        if not ys and int(y) == 0:
            return x
        if not xs and int(x) == 0:
            return y
        return a ^ b
    if op == 'and':
        if (not ys and int(y) == 0) or (not xs and int(x) == 0):
            return 0
        return a & b
    if op == 'or':
        if not ys and int(y) == 0:
            return x
        if not xs and int(x) == 0:
            return y
        return a | b
    if op == 'add':
        if not ys and int(y) == 0:
            return x
        if not xs and int(x) == 0:
            return y
        return a + b
    if op == 'sub':
        if not ys and int(y) == 0:
            return x
        return a - b
    if op == 'mul':
        if (not ys and int(y) == 0) or (not xs and int(x) == 0):
            return 0
        if not ys and int(y) == 1:
            return x
        if not xs and int(x) == 1:
            return y
        return a * b
    if op == 'lshift':
        if not ys and int(y) == 0:
            return x
        return a << b
    if op == 'rshift':
        if not ys and int(y) == 0:
            return x
        return (a >> b) if signed else z3.LShR(a, b)
    if op == 'floordiv':
        if signed:
            raise ShimUnsupported('signed floor division on bit-vectors')
        return z3.UDiv(a, b)
    if op == 'mod':
        if signed:
            raise ShimUnsupported('signed modulo on bit-vectors')
        return z3.URem(a, b)
    if op == 'eq':
        return a == b
    if op == 'ne':
        return a != b
    if op == 'lt':
        return (a < b) if signed else z3.ULT(a, b)
    if op == 'le':
        return (a <= b) if signed else z3.ULE(a, b)
    if op == 'gt':
        return (a > b) if signed else z3.UGT(a, b)
    if op == 'ge':
        return (a >= b) if signed else z3.UGE(a, b)
    raise ShimUnsupported(f'bit-vector operation {op}')


def b_op(op, x, y):
    xs, ys = is_sym(x), is_sym(y)
    if op in ('and', 'mul'):
        if not xs:
            return y if x else False
        if not ys:
            return x if y else False
        return z3.And(x, y)
    if op in ('or', 'add'):
        if not xs:
            return True if x else y
        if not ys:
            return True if y else x
        return z3.Or(x, y)
    if op in ('xor', 'ne'):
        if not xs:
            return z3.Not(y) if x else y
        if not ys:
            return z3.Not(x) if y else x
        return z3.Xor(x, y)
    if op == 'eq':
        if not xs:
            return y if x else z3.Not(y)
        if not ys:
            return x if y else z3.Not(x)
        return x == y
    if op in ('gt', 'lt', 'ge', 'le'):
        a = x if xs else z3.BoolVal(bool(x))
        b = y if ys else z3.BoolVal(bool(y))
        if op == 'lt':
            a, b = b, a
            op = 'gt'
        if op == 'le':
            a, b = b, a
            op = 'ge'
        return z3.simplify(z3.And(a, z3.Not(b)) if op == 'gt' else z3.Or(a, z3.Not(b)))
    raise ShimUnsupported(f'boolean operation {op}')


CMP = ('lt', 'le', 'gt', 'ge', 'eq', 'ne')


def c_op(op, x, y):
    x, y = as_cx(x), as_cx(y)
    if op == 'add':
        return Cx(r_add(x.re, y.re), r_add(x.im, y.im))
    if op == 'sub':
        return Cx(r_sub(x.re, y.re), r_sub(x.im, y.im))
    if op == 'mul':
        return Cx(r_sub(r_mul(x.re, y.re), r_mul(x.im, y.im)), r_add(r_mul(x.re, y.im), r_mul(x.im, y.re)))
    if op == 'truediv':
        d = r_add(r_mul(y.re, y.re), r_mul(y.im, y.im))
        n = c_op('mul', x, Cx(y.re, r_neg(y.im)))
        return Cx(r_div(n.re, d), r_div(n.im, d))
    raise ShimUnsupported(f'complex operation {op}')


def elem_binop(op, x, y, ld):
    """x, y: elements already cast to the loop dtype ld."""
    k = ld.kind
    if isinstance(x, rnp.generic):
        x = x.item()
    if isinstance(y, rnp.generic):
        y = y.item()
    if k == 'c' or isinstance(x, Cx) or isinstance(y, Cx):
        return c_op(op, x, y)
    if k == 'f':
        if CTX.exact:
            if isinstance(x, float) and x == x and x not in (math.inf, -math.inf):
                x = Fraction(x)
            if isinstance(y, float) and y == y and y not in (math.inf, -math.inf):
                y = Fraction(y)
        if op == 'add':
            return mark_op(r_add(x, y), ld)
        if op == 'sub':
            return mark_op(r_sub(x, y), ld)
        if op == 'mul':
            return mark_op(r_mul(x, y), ld)
        if op == 'truediv':
            return mark_op(r_div(x, y), ld)
        if op == 'pow':
            return mark_op(r_pow(x, y), ld)
        if op in CMP:
            return r_cmp(op, x, y)
        raise ShimUnsupported(f'float operation {op}')
    if k in 'iu':
        if op == 'pow':
            if is_sym(y):
                raise ShimUnsupported('symbolic exponent')
            r = 1
            for _ in range(int(y)):
                r = i_op('mul', r, x, ld)
            return r
        return i_op(op, x, y, ld)
    if k == 'b':
        return b_op(op, x, y)
    raise ShimUnsupported(f'operation {op} at dtype {ld}')


def ite(c, a, b, dt=None):
    """If(c, a, b) over elements of a common dtype."""
    if not is_sym(c):
        return a if c else b
    if not is_sym(a) and not is_sym(b) and not is_special(a) and not is_special(b) and a == b and type(a) is type(b):
        return a
    if is_special(a) or is_special(b):
        if CTX.ex is None:
            raise ShimUnsupported('selection between special float values needs an executor')
        return a if CTX.ex.branch(c) else b
    ref = a if is_sym(a) else (b if is_sym(b) else None)
    if ref is None:
        if dt is not None and dt.kind in 'iu':
            w = dt.itemsize * 8
            return z3.If(c, _bvv(a, w), _bvv(b, w))
        if isinstance(a, bool) and isinstance(b, bool):
            return z3.If(c, z3.BoolVal(a), z3.BoolVal(b))
        if isinstance(a, int) and isinstance(b, int) and not (dt is not None and dt.kind == 'f'):
            return z3.If(c, z3.IntVal(a), z3.IntVal(b))
        return z3.If(c, R(a), R(b))

    def lift(v):
        if is_sym(v):
            if z3.is_bv(ref) and not z3.is_bv(v):
                raise ShimUnsupported('mixed bit-vector / integer selection')
            if not z3.is_bv(ref) and not z3.is_bool(ref) and z3.is_bv(v):
                raise ShimUnsupported('mixed bit-vector / integer selection')
            if z3.is_arith(ref) and z3.is_arith(v) and ref.is_real() != v.is_real():
                return z3.ToReal(v) if v.is_int() else v
            return v
        if z3.is_bv(ref):
            return _bvv(v, ref.size())
        if z3.is_bool(ref):
            return z3.BoolVal(bool(v))
        if ref.is_int() and isinstance(v, int):
            return z3.IntVal(v)
        return R(v)
    la, lb = lift(a), lift(b)
    if z3.is_arith(la) and z3.is_arith(lb) and la.is_real() != lb.is_real():
        la = z3.ToReal(la) if la.is_int() else la
        lb = z3.ToReal(lb) if lb.is_int() else lb
    return z3.If(c, la, lb)


# ---------------------------------------------------------------------------------------------
# "possibly-one bits" analysis of bit-vector terms (sound over-approximation; used to discharge table-index range
# conditions without a solver call).  HINTS maps the id of an input symbol to a mask the harness has *assumed* for it.

_MB = {}
HINTS = {}


def maybe_bits(t):
    """Mask of the bits of bit-vector term t that may be 1."""
    if not is_sym(t):
        return int(t)
    k = t.get_id()
    hit = _MB.get(k)
    if hit is not None:
        return hit[1]
    w = t.size()
    full = (1 << w) - 1
    r = full
    if z3.is_bv_value(t):
        r = t.as_long()
    elif z3.is_app(t):
        kind = t.decl().kind()
        ch = t.children()
        if kind == z3.Z3_OP_UNINTERPRETED and not ch:
            r = HINTS.get(k, full)
        elif kind == z3.Z3_OP_BAND:
            r = full
            for c in ch:
                r &= maybe_bits(c)
        elif kind in (z3.Z3_OP_BOR, z3.Z3_OP_BXOR):
            r = 0
            for c in ch:
                r |= maybe_bits(c)
        elif kind == z3.Z3_OP_BADD:
            r = 0
            ok = True
            for c in ch:
                m = maybe_bits(c)
                if r & m:
                    ok = False
                r |= m
            if not ok:
                # carries possible: everything up to one above the highest possible bit of the sum bound
                bound = 0
                for c in ch:
                    bound += maybe_bits(c)
                r = min(full, (1 << bound.bit_length()) - 1)
        elif kind == z3.Z3_OP_BMUL and len(ch) == 2 and (z3.is_bv_value(ch[0]) or z3.is_bv_value(ch[1])):
            c, x = (ch[0], ch[1]) if z3.is_bv_value(ch[0]) else (ch[1], ch[0])
            cv = c.as_long()
            m = maybe_bits(x)
            if cv & (cv - 1) == 0 and cv:
                r = (m << (cv.bit_length() - 1)) & full
            else:
                r = min(full, (1 << (m * cv).bit_length()) - 1)
        elif kind == z3.Z3_OP_BSHL and z3.is_bv_value(ch[1]):
            r = (maybe_bits(ch[0]) << ch[1].as_long()) & full
        elif kind == z3.Z3_OP_BLSHR and z3.is_bv_value(ch[1]):
            r = maybe_bits(ch[0]) >> ch[1].as_long()
        elif kind == z3.Z3_OP_ZERO_EXT:
            r = maybe_bits(ch[0])
        elif kind == z3.Z3_OP_EXTRACT:
            hi, lo = t.params()
            r = (maybe_bits(ch[0]) >> lo) & ((1 << (hi - lo + 1)) - 1)
        elif kind == z3.Z3_OP_CONCAT:
            r = 0
            for c in ch:
                r = (r << c.size()) | maybe_bits(c)
        elif kind == z3.Z3_OP_ITE:
            r = maybe_bits(ch[1]) | maybe_bits(ch[2])
    if len(_MB) < 2000000:
        _MB[k] = (t, r)
    return r
