"""Loads the unmodified scared sources from the working tree under the numpy / numba shim."""
import sys
import os
import types
import builtins
import importlib
import importlib.util
import hashlib

REPO = os.environ.get('SCARED_REPO', '/repo')
_real = {}
LOADED_SOURCES = {}      # module name -> (path, sha1)


def real_imports():
    """Import, with the real numpy, every third-party module scared touches (they must stay bound to real numpy)."""
    import numpy, numba, psutil, scipy.signal, scipy.fft, estraces, logging, h5py  # noqa: F401, E401
    import estraces.formats.ets_writer  # noqa: F401
    from numba.core.registry import cpu_target  # noqa: F401
    _real['numpy'] = sys.modules['numpy']
    _real['numba'] = sys.modules['numba']


class _Finder:
    """Meta path finder for scared.* : executes module source (optionally transformed) from REPO with shim bindings."""

    def __init__(self, transforms=None, builtin_overrides=None):
        self.transforms = transforms or {}
        self.builtin_overrides = builtin_overrides or {}

    def find_spec(self, name, path=None, target=None):
        if name != 'scared' and not name.startswith('scared.'):
            return None
        rel = name.replace('.', '/')
        base = os.path.join(REPO, rel)
        if os.path.isdir(base):
            fn, is_pkg = os.path.join(base, '__init__.py'), True
        else:
            fn, is_pkg = base + '.py', False
        if not os.path.exists(fn):
            return None
        return importlib.util.spec_from_file_location(name, fn, loader=_Loader(self, fn, name),
                                                      submodule_search_locations=[base] if is_pkg else None)


class _Loader:
    def __init__(self, finder, fn, name):
        self.finder, self.fn, self.name = finder, fn, name

    def create_module(self, spec):
        return None

    def exec_module(self, module):
        src = open(self.fn).read()
        LOADED_SOURCES[self.name] = (self.fn, hashlib.sha1(src.encode()).hexdigest())
        tr = self.finder.transforms.get(self.name)
        if tr is not None:
            new = tr(src)
            if new == src:
                raise RuntimeError(f'source transform for {self.name} did not change anything')
            src = new
        if self.name == 'scared':
            # the package __init__ pulls in everything (and versioneer); only bind what the sub-modules expect
            import estraces
            module.traces = estraces
            module.__path__ = [os.path.join(REPO, 'scared')]
            return
        ov = self.finder.builtin_overrides.get(self.name)
        if ov:
            module.__dict__['__builtins__'] = dict(vars(builtins), **ov)
        code = compile(src, self.fn, 'exec')
        exec(code, module.__dict__)


def purge():
    for k in [k for k in sys.modules if k == 'scared' or k.startswith('scared.')]:
        del sys.modules[k]


def load(names, transforms=None, fresh=False):
    """Import the given scared modules under the shim; returns them as a list."""
    from . import symnp, fakenumba
    if not _real:
        real_imports()
    if fresh or transforms:
        purge()
    overrides = {'scared.distinguishers.mia': {'int': symnp.shim_int}}
    finder = _Finder(transforms, overrides)
    sys.meta_path.insert(0, finder)
    fake_nb = fakenumba.make_module()
    sys.modules['numpy'] = symnp
    sys.modules['numba'] = fake_nb
    try:
        mods = [importlib.import_module(n) for n in names]
    finally:
        sys.modules['numpy'] = _real['numpy']
        sys.modules['numba'] = _real['numba']
        sys.meta_path.remove(finder)
    return mods


def sources(prefixes=None):
    out = []
    for n, (fn, h) in sorted(LOADED_SOURCES.items()):
        if prefixes is None or any(n.startswith(p) for p in prefixes):
            out.append(f'{n} ({fn} sha1 {h[:12]})')
    return out


_REAL_MODS = {}


def load_real(names):
    """Import the given scared modules normally (real numpy / numba) from REPO, without disturbing the shim-loaded copies."""
    if not _real:
        real_imports()
    saved = {k: v for k, v in sys.modules.items() if k == 'scared' or k.startswith('scared.')}
    for k in saved:
        del sys.modules[k]
    sys.modules.update(_REAL_MODS)
    sys.path.insert(0, REPO)
    try:
        mods = [importlib.import_module(n) for n in names]
        for k, v in list(sys.modules.items()):
            if k == 'scared' or k.startswith('scared.'):
                _REAL_MODS[k] = v
    finally:
        sys.path.remove(REPO)
        for k in [k for k in sys.modules if k == 'scared' or k.startswith('scared.')]:
            del sys.modules[k]
        sys.modules.update(saved)
    return mods
