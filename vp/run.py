"""Check driver:  python -m vp.run <property id> quick|thorough     |     python -m vp.run replay <file>

A harness module (harness/Cxx.py) provides
    ID, LEVEL, META (dict: functions, bounds, assumptions, outside, stubs)
    prepare(tier, seed)                    -> called once in the parent before workers fork (loads scared under the shim)
    jobs(tier, seed)                       -> list of picklable job descriptors
    run_job(job)                           -> JobResult dict (see `new_result`)
    replay(witness)                        -> dict(reproduced=bool, detail=str, ...)  executed in a clean subprocess on the real code
Exit codes: 0 held (known findings only), 1 VIOLATION (reproduced on the real code), 2 inconclusive.
"""
import sys
import os
import json
import time
import hashlib
import importlib
import subprocess
import multiprocessing
import traceback

if hasattr(sys, 'set_int_max_str_digits'):
    sys.set_int_max_str_digits(0)          # solver models can carry rationals with tens of thousands of digits

HERE = os.path.dirname(os.path.dirname(os.path.abspath(__file__)))
if HERE not in sys.path:
    sys.path.insert(0, HERE)


def new_result(name):
    return dict(job=name, obligations=0, discharged=0, failures=[], unknown=[], paths=0, queries=0, solver_s=0.0,
                samples=[], validated=0, twins=0, twins_ok=0, notes=[], error=None, wall_s=0.0, nontrivial=0)


def _init_worker(modname, tier, seed, path):
    import warnings
    if hasattr(sys, 'set_int_max_str_digits'):
        sys.set_int_max_str_digits(0)
    import logging
    warnings.filterwarnings('ignore')
    logging.disable(logging.CRITICAL)          # scared logs through the logging module; the checks' stdout carries the verdict lines only
    try:                                        # a worker must not outlive a killed runner (PR_SET_PDEATHSIG = 1, SIGKILL = 9)
        import ctypes
        ctypes.CDLL('libc.so.6', use_errno=True).prctl(1, 9)
        if os.getppid() == 1:
            os._exit(0)
    except Exception:
        pass
    for p_ in path:
        if p_ not in sys.path:
            sys.path.append(p_)
    mod = importlib.import_module(modname)
    mod.prepare(tier, seed)


def _job_result(mod, job, name):
    try:
        return mod.run_job(job)
    except BaseException as ex:  # noqa: B902  (path-steering exceptions are BaseException)
        r = new_result(name)
        r['error'] = f'{type(ex).__name__}: {ex}\n' + traceback.format_exc()[-1500:]
        return r


def _run_forked(mod, job, name, seconds):
    """Runs the job in a forked child that is killed after `seconds`; returns its result, or None when it did not finish.
    (z3 occasionally ignores its own time limits on a query that normally takes milliseconds; a fresh attempt then succeeds.)"""
    import pickle
    import select
    import signal
    rd, wr = os.pipe()
    pid = os.fork()
    if pid == 0:
        try:
            os.close(rd)
            try:
                import ctypes
                ctypes.CDLL('libc.so.6').prctl(1, 9)
            except Exception:
                pass
            blob = pickle.dumps(_job_result(mod, job, name))
            with os.fdopen(wr, 'wb') as f:
                f.write(blob)
        finally:
            os._exit(0)
    os.close(wr)
    buf, deadline = b'', time.time() + seconds
    try:
        while True:
            left = deadline - time.time()
            if left <= 0:
                return None
            ready, _, _ = select.select([rd], [], [], min(left, 5.0))
            if ready:
                chunk = os.read(rd, 1 << 20)
                if not chunk:
                    break
                buf += chunk
    finally:
        os.close(rd)
        try:
            os.kill(pid, signal.SIGKILL)
        except ProcessLookupError:
            pass
        try:
            os.waitpid(pid, 0)
        except ChildProcessError:
            pass
    try:
        return pickle.loads(buf)
    except Exception:
        return None


def _run_one(args):
    modname, job = args
    t0 = time.time()
    mod = importlib.import_module(modname)
    name = job.get('name', str(job)) if isinstance(job, dict) else str(job)
    soft = float(os.environ.get('VERIF_JOB_SOFT_TIMEOUT', 0) or (420 if os.environ.get('VERIF_TIER_RUNNING', 'quick') == 'quick' else 3600))
    r, attempts = None, 0
    while r is None and attempts < 2:
        attempts += 1
        r = _run_forked(mod, job, name, soft)
    if r is None:
        r = new_result(name)
        r['error'] = f'job did not finish within {soft:.0f}s in two attempts'
    elif attempts > 1:
        r['notes'].append(f'first attempt exceeded {soft:.0f}s and was abandoned; this is the result of the second attempt')
    r['wall_s'] = round(time.time() - t0, 3)
    return r


def load_known(pid):
    fn = os.path.join(HERE, 'known_findings.json')
    if not os.path.exists(fn):
        return []
    data = json.load(open(fn))
    return [e for e in data.get('findings', []) if e.get('property') == pid and e.get('status') == 'known']


def matches(entry, witness):
    """A known-finding entry matches a witness when every key of entry['match'] equals (or contains) the witness's value."""
    m = entry.get('match', {})
    for k, v in m.items():
        w = witness.get(k)
        if isinstance(v, list):
            if w not in v:
                return False
        elif w != v:
            return False
    return True


def replay_in_subprocess(pid, witness):
    os.makedirs(os.path.join(HERE, 'replays', pid), exist_ok=True)
    blob = json.dumps(dict(property=pid, witness=witness), sort_keys=True, indent=1, default=str)
    path = os.path.join(HERE, 'replays', pid, hashlib.sha1(blob.encode()).hexdigest()[:16] + '.json')
    with open(path, 'w') as f:
        f.write(blob)
    env = dict(os.environ)
    env['PYTHONPATH'] = os.environ.get('SCARED_REPO', '/repo') + os.pathsep + HERE
    try:
        p = subprocess.run([sys.executable, '-m', 'vp.run', 'replay', path], capture_output=True, text=True, timeout=600, env=env, cwd=HERE)
        out = p.stdout.strip().splitlines()
        res = json.loads(out[-1]) if out else dict(reproduced=False, detail='no output: ' + p.stderr[-500:])
    except Exception as ex:
        res = dict(reproduced=False, detail=f'replay failed: {ex}')
    return path, res


def do_replay(path):
    blob = json.load(open(path))
    mod = importlib.import_module('harness.' + blob['property'])
    try:
        res = mod.replay(blob['witness'])
    except Exception as ex:
        res = dict(reproduced=False, detail=f'replay raised {type(ex).__name__}: {ex}')
    print(json.dumps(res, default=str))
    return 0 if not res.get('reproduced') else 1


def main(argv):
    if argv[0] == 'replay':
        return do_replay(argv[1])
    pid, tier = argv[0], (argv[1] if len(argv) > 1 else os.environ.get('VERIF_TIER', 'quick'))
    seed = int(os.environ.get('VERIF_SEED', '0') or 0)
    t0 = time.time()
    modname = 'harness.' + pid
    mod = importlib.import_module(modname)
    only = os.environ.get('VERIF_ONLY')
    mod.prepare(tier, seed)
    jobs = mod.jobs(tier, seed)
    os.environ['VERIF_TIER_RUNNING'] = tier          # read by the workers (soft per-job limit)
    if only:
        jobs = [j for j in jobs if only in j.get('name', '')]
    nproc = int(os.environ.get('VERIF_PROCS', '0') or 0) or min(16, os.cpu_count() or 1, max(1, len(jobs)))
    results = []
    job_timeout = float(os.environ.get('VERIF_JOB_TIMEOUT', getattr(mod, 'JOB_TIMEOUT', {}).get(tier, 1500 if tier == 'quick' else 7200)))
    if nproc == 1 or len(jobs) == 1:
        results = [_run_one((modname, j)) for j in jobs]
    else:
        import concurrent.futures as cf
        ctx = multiprocessing.get_context('spawn')
        pending = list(jobs)
        while pending:
            batch, pending = pending, []
            ex = cf.ProcessPoolExecutor(max_workers=nproc, mp_context=ctx, initializer=_init_worker, initargs=(modname, tier, seed, list(sys.path)))
            futs = {ex.submit(_run_one, (modname, j)): j for j in batch}
            try:
                for f in cf.as_completed(futs, timeout=job_timeout):
                    try:
                        results.append(f.result())
                    except cf.process.BrokenProcessPool:
                        pass
                    except Exception as e_:
                        r = new_result(futs[f].get('name', '?'))
                        r['error'] = f'worker failed: {type(e_).__name__}: {e_}'
                        results.append(r)
            except cf.TimeoutError:
                pass
            done_names = {r['job'] for r in results}
            missing = [j for j in batch if j.get('name') not in done_names]
            for pr_ in list(getattr(ex, '_processes', {}).values()):
                try:
                    pr_.kill()
                except Exception:
                    pass
            ex.shutdown(wait=False, cancel_futures=True)
            for j in missing:
                r = new_result(j.get('name', '?'))
                r['error'] = f'job did not finish (worker died or exceeded {job_timeout:.0f}s)'
                results.append(r)
    results.sort(key=lambda r: r['job'])

    agg = dict(obligations=0, discharged=0, paths=0, queries=0, solver_s=0.0, validated=0, twins=0, twins_ok=0, nontrivial=0)
    failures, unknown, errors, samples, notes = [], [], [], [], []
    for r in results:
        for k in agg:
            agg[k] += r.get(k, 0)
        failures += r['failures']
        unknown += [dict(job=r['job'], what=u) for u in r['unknown']]
        if r['error']:
            errors.append(dict(job=r['job'], error=r['error']))
        samples += r['samples'][:2]
        notes += r['notes']

    # replay every counterexample on the real code ------------------------------------------------
    known = load_known(pid)
    violations, known_hits, unreproduced = [], [], []
    seen = set()
    skipped = 0
    cap = int(os.environ.get('VERIF_MAX_REPLAYS', '40'))
    # witnesses that match a recorded finding are replayed last, so that the cap never hides a new violation behind known ones
    ordered = sorted(failures, key=lambda w_: 1 if any(matches(e, w_) for e in known) else 0)
    for w in ordered:
        key = json.dumps(w.get('key', w), sort_keys=True, default=str)
        if key in seen:
            continue
        seen.add(key)
        if len(violations) + len(known_hits) + len(unreproduced) >= cap:
            skipped += 1
            continue
        path, res = replay_in_subprocess(pid, w)
        if res.get('reproduced'):
            hit = next((e for e in known if matches(e, w)), None)
            if hit is not None:
                known_hits.append((hit, w, path))
            else:
                violations.append((w, path, res))
        else:
            unreproduced.append((w, path, res))
    if skipped:
        errors.append(dict(job='replay', error=f'{skipped} distinct counterexamples were not replayed (cap {cap})'))

    printed = set()
    for hit, w, path in known_hits:
        if hit['id'] not in printed:
            printed.add(hit['id'])
            print(f"KNOWN-FINDING: property={pid} {hit['what']}")
    for w, path, res in violations:
        print(f'VIOLATION property={pid} replay={path}')
        print('  ', w.get('what', ''), '|', str(res.get('detail', ''))[:300])
    inconclusive = bool(unknown or errors or unreproduced) or agg['twins_ok'] != agg['twins']
    for u in unknown[:10]:
        print(f"INCONCLUSIVE {pid}: {u['job']}: {str(u['what'])[:200]}")
    for e in errors[:10]:
        print(f"HARNESS-ERROR {pid}: {e['job']}: {e['error'][:600]}")
    for w, path, res in unreproduced[:10]:
        print(f"UNREPRODUCED {pid}: solver counterexample did not reproduce on the real code ({path}): {w.get('what', '')} | {str(res.get('detail', ''))[:200]}")

    wall = time.time() - t0
    meta = getattr(mod, 'META', {})
    from vp import loader
    cov = dict(
        obligations=agg['obligations'], discharged=agg['discharged'],
        states=max(agg['paths'], 1), transitions=max(agg['queries'], 1), traces_validated_against_impl=agg['validated'],
        evaluations=max(agg['obligations'], 1), distinct_nontrivial=max(agg['nontrivial'], 0),
        rule=meta.get('rule', 'one evaluation = one solver obligation (negated property under the path condition); non-trivial = the obligation '
                              'contains at least one symbolic input after simplification (counted per distinct obligation text)'),
        samples=samples[:12] or [dict(note='no obligation recorded')],
        checker_cmd=f'./check {pid} {tier}',
        trusted_base=['z3 5.1.0', 'vp/symnp (validated against real numpy/numba on every run: see traces_validated_against_impl)',
                      'reference specifications under ref/'],
        exhaustive=False,
        explanation='bounded symbolic execution of the real scared sources on a numpy/numba shim; each obligation is decided by z3 for all values of the '
                    'symbolic inputs inside the stated bounds',
        functions_encoded=meta.get('functions', []), sources=loader.sources(),
        bounds=meta.get('bounds', {}).get(tier, meta.get('bounds', {})), outside_claim=meta.get('outside', []), stubs=meta.get('stubs', []),
        paths_explored=agg['paths'], solver_queries=agg['queries'], solver_seconds=round(agg['solver_s'], 2),
        reachability_twins=dict(total=agg['twins'], satisfiable=agg['twins_ok']),
        counterexamples=dict(found=len(failures), reproduced_new=len(violations), known_findings=sorted(printed), unreproduced=len(unreproduced)),
        inconclusive=dict(unknown=len(unknown), harness_errors=len(errors)),
        jobs=len(jobs), processes=nproc, notes=notes[:20],
    )
    ev = dict(property_id=pid, tier=tier if tier in ('quick', 'thorough') else 'quick', seed=seed, level=getattr(mod, 'LEVEL', 'model_checking'),
              coverage=cov, assumptions=meta.get('assumptions', []), wall_s=round(wall, 2), violations=len(violations))
    evdir = os.environ.get('VERIF_EVIDENCE_DIR', os.path.join(HERE, 'evidence'))      # seed sweeps on a scratch copy write elsewhere
    os.makedirs(evdir, exist_ok=True)
    with open(os.path.join(evdir, f'{pid}.json'), 'w') as f:
        json.dump(ev, f, indent=1, default=str)
    status = 'VIOLATED' if violations else ('INCONCLUSIVE' if inconclusive else 'HELD')
    print(f"{pid} {tier}: {status}  obligations={agg['obligations']} discharged={agg['discharged']} paths={agg['paths']} queries={agg['queries']} "
          f"solver_s={agg['solver_s']:.1f} validated={agg['validated']} twins={agg['twins_ok']}/{agg['twins']} known={len(printed)} wall={wall:.1f}s")
    if violations:
        return 1
    if inconclusive:
        return 2
    return 0


if __name__ == '__main__':
    sys.exit(main(sys.argv[1:]))
