"""symnp: a numpy look-alike on which the unmodified scared sources are executed symbolically.

Every array is a wrapper around a *real* numpy object array (the carrier) plus a real numpy dtype.
Structural operations (indexing, reshape, swapaxes, roll, flip, stacking, broadcasting, views and
aliasing) are executed by real numpy on the carrier.  If no element is symbolic the operation is
delegated to real numpy on a typed copy (exact by construction).  Otherwise element arithmetic is
done by vp.elem at the loop dtype that real numpy itself reports for the operand dtypes.
"""
import sys
import math
import operator
import builtins
import numpy as rnp
import z3

from . import elem as E
from .elem import CTX, ShimUnsupported, is_sym, Cx

_this = sys.modules[__name__]

nan = rnp.nan
inf = rnp.inf
pi = rnp.pi
newaxis = None
e = rnp.e

# ---------------------------------------------------------------------------------------------
# scalar types: subclasses of the real ones whose isinstance() also accepts symbolic 0-d arrays


class _ScalarMeta(type):
    def __instancecheck__(cls, x):
        if type.__instancecheck__(cls, x):
            return True
        base = cls.__mro__[1]
        if _is_shim(x):
            return x.ndim == 0 and issubclass(x.dtype.type, base)
        return isinstance(x, base)

    def __subclasscheck__(cls, sub):
        return type.__subclasscheck__(cls, sub) or issubclass(sub, cls.__mro__[1])

    def __call__(cls, *a, **k):
        base = cls.__mro__[1]
        if a and _is_shim(a[0]) and a[0].sym:
            return a[0].astype(rnp.dtype(base))          # cast of a symbolic scalar / array (numba: self_precision(x))
        return base(*_real_arg(a), **k)


def fake_scalar_type(t):
    """real numpy scalar type -> the shim's stand-in (callable on symbolic values)."""
    return getattr(_this, t.__name__, t) if isinstance(t, type) and issubclass(t, rnp.generic) and not isinstance(t, _ScalarMeta) else t


def _mk_scalar_type(name):
    base = getattr(rnp, name)
    return _ScalarMeta(name, (base,), {})


class _AbstractMeta(type):
    def __instancecheck__(cls, x):
        if _is_shim(x):
            return x.ndim == 0 and issubclass(x.dtype.type, cls._base)
        return isinstance(x, cls._base)

    def __subclasscheck__(cls, sub):
        return issubclass(sub, cls._base)


def _mk_abstract(name):
    return _AbstractMeta(name, (), {'_base': getattr(rnp, name)})


class _NDMeta(type):
    def __instancecheck__(cls, x):
        return type.__instancecheck__(cls, x) or isinstance(x, rnp.ndarray)


dtype = rnp.dtype
iinfo = rnp.iinfo
finfo = rnp.finfo
errstate = rnp.errstate
result_type = rnp.result_type
can_cast = rnp.can_cast
index_exp = rnp.index_exp
s_ = rnp.s_


def _is_shim(x):
    return type(x) is ndarray_impl


def _obj0(x):
    a = rnp.empty((), dtype=object)
    a[()] = x
    return a


def _objarr(shape, fill=None):
    a = rnp.empty(shape, dtype=object)
    if fill is not None:
        for i in rnp.ndindex(a.shape):
            a[i] = fill(i)
    return a


def _map1(f, c):
    r = rnp.frompyfunc(f, 1, 1)(c)
    if not isinstance(r, rnp.ndarray):
        return _obj0(r)
    return r


def _map2(f, a, b):
    r = rnp.frompyfunc(f, 2, 1)(a, b)
    if not isinstance(r, rnp.ndarray):
        return _obj0(r)
    return r


def _map3(f, a, b, c):
    r = rnp.frompyfunc(f, 3, 1)(a, b, c)
    if not isinstance(r, rnp.ndarray):
        return _obj0(r)
    return r


def _elem_sym(x):
    return isinstance(x, (z3.ExprRef, Cx)) and (is_sym(x) or is_sym(x.re) or is_sym(x.im))


class ndarray_impl(metaclass=_NDMeta):
    __array_priority__ = 1000
    __array_ufunc__ = None

    def __init__(self, carrier, dt, symcell=None):
        if not (isinstance(carrier, rnp.ndarray) and carrier.dtype == object):
            raise TypeError('carrier must be an object array')
        self.c = carrier
        self.dtype = rnp.dtype(dt)
        self._sym = symcell if symcell is not None else [True]

    # -- basic attributes ---------------------------------------------------------------------
    shape = property(lambda s: s.c.shape)
    ndim = property(lambda s: s.c.ndim)
    size = property(lambda s: s.c.size)
    itemsize = property(lambda s: s.dtype.itemsize)
    nbytes = property(lambda s: s.dtype.itemsize * s.c.size)
    T = property(lambda s: ndarray_impl(s.c.T, s.dtype, s._sym))
    flat = property(lambda s: (s._scalar(x) for x in s.c.flat))

    @property
    def sym(self):
        if not self._sym[0]:
            return False
        for x in self.c.flat:
            if isinstance(x, (z3.ExprRef, Cx)):
                return True
        return False

    @property
    def real(self):
        if self.dtype.kind != 'c':
            return self
        rd = rnp.empty(0, self.dtype).real.dtype
        return ndarray_impl(_map1(lambda x: E.as_cx(x).re, self.c), rd)

    @property
    def imag(self):
        rd = rnp.empty(0, self.dtype).imag.dtype
        if self.dtype.kind != 'c':
            return zeros(self.shape, rd)
        return ndarray_impl(_map1(lambda x: E.as_cx(x).im, self.c), rd)

    def typed(self):
        """Typed real numpy copy (only when fully concrete)."""
        try:
            return self.c.astype(self.dtype)
        except (TypeError, ValueError) as ex:
            raise ShimUnsupported(f'symbolic array where a concrete one is required ({ex})')

    def _scalar(self, x):
        if isinstance(x, (z3.ExprRef, Cx)):
            return ndarray_impl(_obj0(x), self.dtype)
        if isinstance(x, rnp.generic):
            return x
        with rnp.errstate(all='ignore'):
            return rnp.asarray(x).astype(self.dtype)[()] if not isinstance(x, self.dtype.type) else x

    def __len__(self):
        return len(self.c)

    def __iter__(self):
        if self.ndim == 0:
            raise TypeError('iteration over a 0-d array')
        for i in range(len(self.c)):
            yield self[i]

    def __hash__(self):
        return id(self)

    def __repr__(self):
        return f'symnp.array({self.c!r}, dtype={self.dtype})'

    __str__ = __repr__

    def __format__(self, spec):
        return repr(self)

    # -- conversions of 0-d / size-1 arrays ----------------------------------------------------
    def _single(self):
        if self.c.size != 1:
            raise ValueError('The truth value of an array with more than one element is ambiguous. Use a.any() or a.all()')
        return self.c.reshape(-1)[0]

    def __bool__(self):
        x = self._single()
        if not is_sym(x):
            return builtins.bool(x)
        b = E.to_bool(x, self.dtype)
        if CTX.ex is None:
            raise ShimUnsupported('branch on a symbolic condition without an executor')
        return CTX.ex.branch(b)

    def _concretize(self):
        x = self._single()
        if not is_sym(x):
            return x
        if CTX.ex is None:
            raise ShimUnsupported('concrete integer needed from a symbolic value without an executor')
        if z3.is_bool(x):
            return CTX.ex.branch(x)
        if z3.is_bv(x):
            v = CTX.ex.concretize(x)
            if self.dtype.kind == 'i' and v >= 1 << (x.size() - 1):
                v -= 1 << x.size()
            return v
        if x.is_int():
            return CTX.ex.concretize(x)
        raise ShimUnsupported('concrete value needed from a symbolic real')

    def __index__(self):
        if self.dtype.kind not in 'iub':
            raise TypeError('only integer scalar arrays can be converted to a scalar index')
        return int(self._concretize())

    def __int__(self):
        x = self._single()
        if is_sym(x) and z3.is_arith(x) and x.is_real():
            raise ShimUnsupported('int() of a symbolic real (use the shim int)')
        return int(self._concretize())

    def __float__(self):
        x = self._single()
        if is_sym(x):
            raise ShimUnsupported('float() of a symbolic value')
        return float(x)

    def item(self, *a):
        x = self.c.item(*a)
        if _elem_sym(x):
            raise ShimUnsupported('item() of a symbolic element')
        return self._scalar(x).item()

    def tolist(self):
        return self.typed().tolist()

    # -- structure ---------------------------------------------------------------------------
    def reshape(self, *shape, **kw):
        if len(shape) == 1 and not isinstance(shape[0], (int, rnp.integer)):
            shape = shape[0]
        shape = tuple(int(s) for s in shape) if not isinstance(shape, (int, rnp.integer)) else int(shape)
        return ndarray_impl(self.c.reshape(shape, **kw), self.dtype, self._sym)

    def clip(self, a_min=None, a_max=None, **kw):
        if kw:
            raise ShimUnsupported(f'clip keyword arguments {sorted(kw)}')
        if not self.sym and not _any_sym([a_min, a_max]):
            return _from_real(self.typed().clip(_real_arg(a_min), _real_arg(a_max)))
        r = self
        if a_min is not None:
            r = maximum(r, a_min)
        if a_max is not None:
            r = minimum(r, a_max)
        return r.astype(self.dtype) if r.dtype != self.dtype else r

    def swapaxes(self, a, b):
        return ndarray_impl(self.c.swapaxes(a, b), self.dtype, self._sym)

    def transpose(self, *axes):
        return ndarray_impl(self.c.transpose(*axes), self.dtype, self._sym)

    def squeeze(self, axis=None):
        return ndarray_impl(self.c.squeeze(axis), self.dtype, self._sym)

    def ravel(self):
        return ndarray_impl(self.c.ravel(), self.dtype, self._sym)

    def flatten(self):
        return ndarray_impl(self.c.flatten(), self.dtype, [self._sym[0]])

    def copy(self, order='C'):
        return ndarray_impl(self.c.copy(), self.dtype, [self._sym[0]])

    def view(self, *a, **k):
        if not a and not k:
            return ndarray_impl(self.c.view(), self.dtype, self._sym)
        return _from_real(self.typed().view(*a, **k))

    def fill(self, v):
        self[...] = v

    def astype(self, dt, copy=True, **kw):
        dt = rnp.dtype(dt)
        if dt == self.dtype and not copy:
            return self
        if not self.sym:
            with rnp.errstate(all='ignore'):
                return _from_real(self.typed().astype(dt, **kw))
        src = self.dtype
        return ndarray_impl(_map1(lambda x: E.cast(x, src, dt), self.c), dt)

    def take(self, indices, axis=None, **kw):
        return take(self, indices, axis=axis, **kw)

    def conj(self):
        return conjugate(self)

    conjugate = conj

    # -- indexing ------------------------------------------------------------------------------
    def _norm_key(self, key, for_write=False):
        """-> (mode, key) with mode in 'plain' | 'lookup' | 'mask'."""
        single = not isinstance(key, tuple)
        parts = (key,) if single else key
        out = []
        for p in parts:
            if _is_shim(p):
                if p.sym:
                    if p.dtype.kind == 'b':
                        if single and for_write and p.shape == self.shape:
                            return 'mask', p
                        out.append(_concretize_mask(p))
                        continue
                    if p.ndim == 0 and not (single and not for_write):
                        out.append(p.__index__())
                        continue
                    if single and not for_write:
                        return 'lookup', p
                    raise ShimUnsupported('symbolic index array in a multi-dimensional or write index')
                t = p.typed()
                out.append(t if t.ndim else t[()])
            elif isinstance(p, (list, tuple)) and any(_is_shim(q) for q in p):
                out.append([int(q) for q in p])
            else:
                out.append(p)
        return 'plain', (out[0] if single else tuple(out))

    def __getitem__(self, key):
        mode, k = self._norm_key(key)
        if mode == 'lookup':
            return _lookup(self, k)
        r = self.c[k]
        if CTX.footprint is not None:
            _log_access('r', self, k)
        if isinstance(r, rnp.ndarray) and r.dtype == object and not (r.ndim == 0 and self.ndim != 0 and False):
            if r.ndim == 0 and self.c.ndim > 0:
                return self._scalar(r[()])
            if r.ndim == 0 and self.c.ndim == 0 and k == ():
                return self._scalar(r[()])
            return ndarray_impl(r, self.dtype, self._sym)
        return self._scalar(r)

    def __setitem__(self, key, value):
        mode, k = self._norm_key(key, for_write=True)
        vc, vd, vsym = _operand(value)
        dst = self.dtype
        if vd is None and not isinstance(vc, rnp.ndarray):
            vals = _obj0(E.cast(vc, None, dst))
        else:
            carr = vc if isinstance(vc, rnp.ndarray) else _obj0(vc)
            if vd == dst and not vsym:
                vals = carr
            else:
                with rnp.errstate(all='ignore'):
                    vals = _map1(lambda x: E.cast(x, vd, dst), carr)
        if vsym:
            self._sym[0] = True
        if mode == 'mask':
            self._sym[0] = True
            new = _map3(lambda m, v, old: E.ite(m, v, old, dst), k.c, rnp.broadcast_to(vals, self.shape), self.c)
            self.c[...] = new
            return
        if CTX.footprint is not None:
            _log_access('w', self, k)
        if vals.ndim == 0 or vals.size == 1:
            sel = self.c[k]
            if not isinstance(sel, rnp.ndarray) or (sel.ndim == 0 and self.c.ndim > 0):
                self.c[k] = vals.reshape(-1)[0]       # single element: store the element itself, not a 0-d array object
                return
        self.c[k] = vals

    # -- arithmetic ----------------------------------------------------------------------------
    def __add__(s, o): return _binop('add', s, o)
    def __radd__(s, o): return _binop('add', o, s)
    def __iadd__(s, o): return _binop('add', s, o, inplace=True)
    def __sub__(s, o): return _binop('sub', s, o)
    def __rsub__(s, o): return _binop('sub', o, s)
    def __isub__(s, o): return _binop('sub', s, o, inplace=True)
    def __mul__(s, o): return _binop('mul', s, o)
    def __rmul__(s, o): return _binop('mul', o, s)
    def __imul__(s, o): return _binop('mul', s, o, inplace=True)
    def __truediv__(s, o): return _binop('truediv', s, o)
    def __rtruediv__(s, o): return _binop('truediv', o, s)
    def __itruediv__(s, o): return _binop('truediv', s, o, inplace=True)
    def __floordiv__(s, o): return _binop('floordiv', s, o)
    def __rfloordiv__(s, o): return _binop('floordiv', o, s)
    def __mod__(s, o): return _binop('mod', s, o)
    def __rmod__(s, o): return _binop('mod', o, s)
    def __pow__(s, o): return _binop('pow', s, o)
    def __rpow__(s, o): return _binop('pow', o, s)
    def __ipow__(s, o): return _binop('pow', s, o, inplace=True)
    def __and__(s, o): return _binop('and', s, o)
    def __rand__(s, o): return _binop('and', o, s)
    def __iand__(s, o): return _binop('and', s, o, inplace=True)
    def __or__(s, o): return _binop('or', s, o)
    def __ror__(s, o): return _binop('or', o, s)
    def __ior__(s, o): return _binop('or', s, o, inplace=True)
    def __xor__(s, o): return _binop('xor', s, o)
    def __rxor__(s, o): return _binop('xor', o, s)
    def __ixor__(s, o): return _binop('xor', s, o, inplace=True)
    def __lshift__(s, o): return _binop('lshift', s, o)
    def __rlshift__(s, o): return _binop('lshift', o, s)
    def __ilshift__(s, o): return _binop('lshift', s, o, inplace=True)
    def __rshift__(s, o): return _binop('rshift', s, o)
    def __rrshift__(s, o): return _binop('rshift', o, s)
    def __irshift__(s, o): return _binop('rshift', s, o, inplace=True)
    def __lt__(s, o): return _binop('lt', s, o)
    def __le__(s, o): return _binop('le', s, o)
    def __gt__(s, o): return _binop('gt', s, o)
    def __ge__(s, o): return _binop('ge', s, o)
    def __eq__(s, o): return _binop('eq', s, o)
    def __ne__(s, o): return _binop('ne', s, o)
    def __matmul__(s, o): return matmul(s, o)
    def __rmatmul__(s, o): return matmul(o, s)
    def __neg__(s): return negative(s)
    def __pos__(s): return s
    def __abs__(s): return absolute(s)
    def __invert__(s): return invert(s)

    # -- reductions ----------------------------------------------------------------------------
    def sum(self, axis=None, dtype=None, keepdims=False, **kw): return sum(self, axis=axis, dtype=dtype, keepdims=keepdims)
    def mean(self, axis=None, dtype=None, keepdims=False, **kw): return mean(self, axis=axis, dtype=dtype, keepdims=keepdims)
    def std(self, axis=None, dtype=None, **kw): return std(self, axis=axis, dtype=dtype, **kw)
    def var(self, axis=None, dtype=None, **kw): return var(self, axis=axis, dtype=dtype, **kw)
    def max(self, axis=None, **kw): return max(self, axis=axis, **kw)
    def min(self, axis=None, **kw): return min(self, axis=axis, **kw)
    def all(self, axis=None, **kw): return all(self, axis=axis, **kw)
    def any(self, axis=None, **kw): return any(self, axis=axis, **kw)
    def argmin(self, axis=None): return argmin(self, axis=axis)
    def argmax(self, axis=None): return argmax(self, axis=axis)
    def cumsum(self, axis=None, dtype=None): return cumsum(self, axis=axis, dtype=dtype)
    def dot(self, o): return dot(self, o)
    def nonzero(self): return nonzero(self)
    def round(self, decimals=0): return round(self, decimals)


ndarray = ndarray_impl

for _n in ('bool_', 'int8', 'int16', 'int32', 'int64', 'uint8', 'uint16', 'uint32', 'uint64', 'float16', 'float32', 'float64',
           'complex64', 'complex128', 'intp', 'uintp', 'longlong', 'ulonglong'):
    setattr(_this, _n, _mk_scalar_type(_n))
for _n in ('integer', 'floating', 'signedinteger', 'unsignedinteger', 'number', 'generic', 'inexact', 'complexfloating'):
    setattr(_this, _n, _mk_abstract(_n))
bool = bool_  # noqa: A001  (numpy 2 exports np.bool)
double = float64  # noqa: F821
single = float32  # noqa: F821
int_ = int64  # noqa: F821
uint = uint64  # noqa: F821


# ---------------------------------------------------------------------------------------------
# wrapping helpers


def _from_real(r):
    if isinstance(r, rnp.ndarray):
        if r.dtype == object:
            return ndarray_impl(r, object, [True])
        return ndarray_impl(r.astype(object), r.dtype, [False])
    if isinstance(r, (tuple, list)) and r and builtins.all(isinstance(x, rnp.ndarray) for x in r):
        return type(r)(_from_real(x) for x in r)
    return r


def _w(x):
    """Anything array-like -> shim ndarray."""
    if _is_shim(x):
        return x
    if isinstance(x, rnp.ndarray):
        return _from_real(x)
    if isinstance(x, rnp.generic):
        return ndarray_impl(_obj0(x.item()), x.dtype, [False])
    if isinstance(x, (list, tuple)):
        return array(x)
    if isinstance(x, z3.ExprRef):
        raise ShimUnsupported('bare z3 term used as array')
    return _from_real(rnp.asarray(x))


def _operand(x):
    """-> (carrier | python scalar, dtype | None for weak python scalars, symbolic?)."""
    if _is_shim(x):
        return x.c, x.dtype, x.sym
    if isinstance(x, rnp.ndarray):
        return x.astype(object), x.dtype, False
    if isinstance(x, rnp.generic):
        return _obj0(x.item()), x.dtype, False
    if isinstance(x, (builtins.bool, int, float, complex)):
        return x, None, False
    if isinstance(x, (list, tuple, range)):
        a = array(x)
        return a.c, a.dtype, a.sym
    if x is None:
        raise TypeError('unsupported operand type: NoneType')
    raise TypeError(f'unsupported operand type for the numpy shim: {type(x)}')


def _real_arg(x):
    """Concrete argument for a real numpy call."""
    if _is_shim(x):
        t = x.typed()
        return t if t.ndim else t[()]
    if isinstance(x, (list, tuple)):
        return type(x)(_real_arg(y) for y in x)
    if isinstance(x, dict):
        return {k: _real_arg(v) for k, v in x.items()}
    if isinstance(x, type) and isinstance(x, (_ScalarMeta,)):
        return x.__mro__[1]
    if isinstance(x, type) and isinstance(x, _AbstractMeta):
        return x._base
    return x


def _any_sym(x):
    if _is_shim(x):
        return x.sym
    if isinstance(x, (list, tuple)):
        return builtins.any(_any_sym(y) for y in x)
    return False


def _lift(name, f):
    def g(*a, **k):
        if _any_sym(a) or _any_sym(list(k.values())):
            raise ShimUnsupported(f'numpy.{name} on symbolic arguments')
        with rnp.errstate(all='ignore'):
            return _from_real(f(*_real_arg(a), **_real_arg(k)))
    g.__name__ = name
    return g


class _LiftedModule:
    def __init__(self, name, mod):
        self._name, self._mod = name, mod

    def __getattr__(self, n):
        v = getattr(self._mod, n)
        if callable(v) and not isinstance(v, type):
            return _lift(f'{self._name}.{n}', v)
        return v


def __getattr__(name):
    v = getattr(rnp, name)
    if isinstance(v, type) or not callable(v):
        if type(v).__name__ == 'module':
            return _LiftedModule(name, v)
        return v
    return _lift(name, v)


# ---------------------------------------------------------------------------------------------
# creation


def _is_conc_tree(obj):
    if _is_shim(obj):
        return not obj.sym
    if isinstance(obj, (list, tuple)):
        return builtins.all(_is_conc_tree(o) for o in obj)
    return not isinstance(obj, z3.ExprRef)


def _tree_carrier(obj):
    """nested lists / shim arrays -> (object carrier, [dtypes...])."""
    if _is_shim(obj):
        return obj.c, [obj.dtype]
    if isinstance(obj, rnp.ndarray):
        return obj.astype(object), [obj.dtype]
    if isinstance(obj, rnp.generic):
        return _obj0(obj.item()), [obj.dtype]
    if isinstance(obj, (list, tuple, range)):
        subs = [_tree_carrier(o) for o in obj]
        if not subs:
            return rnp.empty((0,), dtype=object), [rnp.dtype(float)]
        shp = subs[0][0].shape
        out = rnp.empty((len(subs),) + shp, dtype=object)
        dts = []
        for i, (c, d) in enumerate(subs):
            if c.shape != shp:
                raise ValueError('setting an array element with a sequence. The requested array has an inhomogeneous shape')
            out[i] = c if c.ndim else c[()]
            dts += d
        return out, dts
    return _obj0(obj), [rnp.asarray(obj).dtype if not isinstance(obj, z3.ExprRef) else rnp.dtype(object)]


def array(obj, dtype=None, copy=True, order=None, ndmin=0, **kw):
    if _is_shim(obj):
        dt = rnp.dtype(dtype) if dtype is not None else obj.dtype
        r = obj.astype(dt) if dt != obj.dtype else (obj.copy() if copy else obj)
    elif _is_conc_tree(obj):
        r = _from_real(rnp.array(_real_arg(obj), dtype=_real_arg(dtype) if dtype is not None else None))
    else:
        c, dts = _tree_carrier(obj)
        dts = [d for d in dts if d != object]
        nat = rnp.result_type(*dts) if dts else rnp.dtype(float)
        dt = rnp.dtype(dtype) if dtype is not None else nat
        a = ndarray_impl(c.copy(), nat)
        if isinstance(obj, (list, tuple)) and dtype is not None:
            # elements come from arrays of possibly different dtypes: cast each with its own source dtype
            subs = []
            for o in obj:
                subs.append(array(o, dtype=dt) if isinstance(o, (ndarray_impl, list, tuple)) else array(_w(o), dtype=dt))
            a = ndarray_impl(_tree_carrier(subs)[0].copy(), dt)
        elif dt != nat:
            a = a.astype(dt)
        r = a
    while r.ndim < ndmin:
        r = r.reshape((1,) + r.shape)
    return r


def asarray(obj, dtype=None, **kw):
    if _is_shim(obj) and (dtype is None or rnp.dtype(dtype) == obj.dtype):
        return obj
    return array(obj, dtype=dtype, copy=False)


asanyarray = asarray
ascontiguousarray = asarray


def zeros(shape, dtype=float, order='C', **kw):
    return _from_real(rnp.zeros(_real_arg(shape), dtype=_real_arg(dtype)))


def ones(shape, dtype=float, order='C', **kw):
    return _from_real(rnp.ones(_real_arg(shape), dtype=_real_arg(dtype)))


def empty(shape, dtype=float, order='C', **kw):
    return _from_real(rnp.zeros(_real_arg(shape), dtype=_real_arg(dtype)))


def full(shape, fill_value, dtype=None, **kw):
    if _is_shim(fill_value) and fill_value.sym:
        r = zeros(shape, dtype or fill_value.dtype)
        r[...] = fill_value
        return r
    return _from_real(rnp.full(_real_arg(shape), _real_arg(fill_value), dtype=_real_arg(dtype)))


def zeros_like(a, dtype=None, **kw):
    a = _w(a)
    return zeros(a.shape, dtype or a.dtype)


def ones_like(a, dtype=None, **kw):
    a = _w(a)
    return ones(a.shape, dtype or a.dtype)


empty_like = zeros_like


def copy(a, **kw):
    return _w(a).copy()


def arange(*a, **k):
    return _from_real(rnp.arange(*_real_arg(a), **_real_arg(k)))


def linspace(*a, **k):
    if _any_sym(a):
        # symbolic bounds: start + i * (stop - start) / (num - 1) over exact reals (numpy's own rounding of the step is not modelled)
        start, stop = a[0], a[1]
        num = a[2] if len(a) > 2 else k.pop('num', 50)
        if k.pop('endpoint', True) is not True or k or len(a) > 3 or is_sym(num) or _is_shim(num):
            raise ShimUnsupported('linspace on symbolic bounds with these arguments')
        num = int(num)
        s0 = _w(start)._single() if _is_shim(start) else start
        s1 = _w(stop)._single() if _is_shim(stop) else stop
        s0, s1 = E.to_real(s0, None) if is_sym(s0) else s0, E.to_real(s1, None) if is_sym(s1) else s1
        f64 = rnp.dtype('float64')
        step = E.elem_binop('truediv', E.elem_binop('sub', s1, s0, f64), num - 1, f64) if num > 1 else 0
        c = rnp.empty(num, dtype=object)
        for i in range(num):
            c[i] = E.elem_binop('add', s0, E.elem_binop('mul', step, i, f64), f64) if i else s0
        return ndarray_impl(c, f64)
    return _from_real(rnp.linspace(*_real_arg(a), **_real_arg(k)))


def isclose(a, b, rtol=1e-05, atol=1e-08, equal_nan=False):
    a, b = _w(a), _w(b)
    if not a.sym and not b.sym:
        return _from_real(rnp.isclose(a.typed(), b.typed(), rtol=rtol, atol=atol, equal_nan=equal_nan))
    if equal_nan:
        raise ShimUnsupported('isclose(equal_nan=True) on symbolic arguments')
    f64 = rnp.dtype('float64')
    return _binop('le', absolute(_binop('sub', a.astype(f64), b.astype(f64))), _binop('add', const(rnp.float64(atol)), _binop('mul', const(rnp.float64(rtol)), absolute(b.astype(f64)))))


def allclose(a, b, rtol=1e-05, atol=1e-08, equal_nan=False):
    r = all(isclose(a, b, rtol=rtol, atol=atol, equal_nan=equal_nan))
    return builtins.bool(r) if not _w(r).sym else r


# ---------------------------------------------------------------------------------------------
# element-wise binary operations

_UF = dict(add=rnp.add, sub=rnp.subtract, mul=rnp.multiply, truediv=rnp.true_divide, floordiv=rnp.floor_divide, mod=rnp.remainder,
           pow=rnp.power, xor=rnp.bitwise_xor, lshift=rnp.left_shift, rshift=rnp.right_shift,
           lt=rnp.less, le=rnp.less_equal, gt=rnp.greater, ge=rnp.greater_equal, eq=rnp.equal, ne=rnp.not_equal)
_UF['and'] = rnp.bitwise_and
_UF['or'] = rnp.bitwise_or


def _probe(c, d):
    """A zero-size stand-in carrying the dtype (python scalars stand for themselves)."""
    if d is None:
        return c
    return rnp.empty(0, d)


def _binop(op, a, b, inplace=False):
    try:
        ca, da, sa = _operand(a)
        cb, db, sb = _operand(b)
    except TypeError:
        return NotImplemented
    uf = _UF[op]
    exact_float = CTX.exact and (op == 'truediv' or (da is not None and da.kind == 'f') or (db is not None and db.kind == 'f')
                                 or isinstance(ca, float) or isinstance(cb, float)) and op not in E.CMP
    if not sa and not sb and not exact_float:
        ta = ca.astype(da) if da is not None else ca
        tb = cb.astype(db) if db is not None else cb
        with rnp.errstate(all='ignore'):
            if inplace:
                r = uf(ta, tb, out=ta, casting='same_kind')
                a.c[...] = r.astype(object)
                return a
            r = uf(ta[()] if da is not None and ta.ndim == 0 and CTX.numba == 0 else ta,
                   tb[()] if db is not None and tb.ndim == 0 and CTX.numba == 0 else tb)
        if CTX.numba and not isinstance(r, rnp.ndarray):
            r = rnp.asarray(r)
        if CTX.numba and isinstance(r, rnp.ndarray) and r.ndim == 0:
            return _nb_binop(op, ca, da, cb, db)
        return _from_real(r)
    if CTX.numba and (da is None or ca.ndim == 0) and (db is None or cb.ndim == 0) and not inplace:
        return _nb_binop(op, ca, da, cb, db)
    with rnp.errstate(all='ignore'):
        if inplace:
            uf(_probe(ca, da), _probe(cb, db), out=rnp.empty(0, da), casting='same_kind')
        rdt = uf(_probe(ca, da), _probe(cb, db)).dtype
    if op in E.CMP:
        try:
            ld = rnp.result_type(_probe(ca, da), _probe(cb, db))
        except OverflowError:
            ld = rnp.dtype('int64')
        if ld.kind == 'O':
            raise ShimUnsupported('comparison at object dtype')
    else:
        ld = rdt
    if db is None and da == ld:
        yc = E.cast(cb, None, ld)
        r = _map1(lambda x: E.elem_binop(op, x, yc, ld), ca)
    elif da is None and db == ld:
        xc = E.cast(ca, None, ld)
        r = _map1(lambda y: E.elem_binop(op, xc, y, ld), cb)
    elif da == ld and db == ld:
        r = _map2(lambda x, y: E.elem_binop(op, x, y, ld), ca, cb)
    else:
        xa = ca if da is not None else _obj0(ca)
        xb = cb if db is not None else _obj0(cb)
        r = _map2(lambda x, y: E.elem_binop(op, E.cast(x, da, ld), E.cast(y, db, ld), ld), xa, xb)
    if inplace:
        if rdt != da:
            r = _map1(lambda x: E.cast(x, rdt, da), r)
        a.c[...] = r
        a._sym[0] = True
        return a
    return ndarray_impl(r, rdt)


# numba scalar typing --------------------------------------------------------------------------
_NB_OPS = dict(add=operator.add, sub=operator.sub, mul=operator.mul, truediv=operator.truediv, floordiv=operator.floordiv, mod=operator.mod,
               pow=operator.pow, xor=operator.xor, lshift=operator.lshift, rshift=operator.rshift,
               lt=operator.lt, le=operator.le, gt=operator.gt, ge=operator.ge, eq=operator.eq, ne=operator.ne)
_NB_OPS['and'] = operator.and_
_NB_OPS['or'] = operator.or_
_NB_CACHE = {}


def _nb_type(d, v):
    import numba
    if d is not None:
        return numba.from_dtype(d)
    if isinstance(v, builtins.bool):
        return numba.types.boolean
    if isinstance(v, int):
        return numba.types.int64 if -2**63 <= v < 2**63 else numba.types.uint64
    if isinstance(v, float):
        return numba.types.float64
    return numba.types.complex128


def _nb_result(op, ta, tb):
    key = (op, ta, tb)
    r = _NB_CACHE.get(key)
    if r is None:
        import numba
        from numba.core.registry import cpu_target
        if not _NB_CACHE:
            cpu_target.typing_context.refresh()
        sig = cpu_target.typing_context.resolve_function_type(_NB_OPS[op], (ta, tb), {})
        if sig is None:
            raise ShimUnsupported(f'numba cannot type {op}({ta}, {tb})')
        r = _NB_CACHE[key] = (numba.np.numpy_support.as_dtype(sig.return_type), [numba.np.numpy_support.as_dtype(t) for t in sig.args])
    return r


def _nb_binop(op, ca, da, cb, db):
    """Scalar (0-d) operation typed by numba's own typing context."""
    xa = ca[()] if isinstance(ca, rnp.ndarray) else ca
    xb = cb[()] if isinstance(cb, rnp.ndarray) else cb
    rdt, (aa, ab) = _nb_result(op, _nb_type(da, xa), _nb_type(db, xb))
    ld = rnp.result_type(aa, ab) if op in E.CMP else rdt
    if op in ('lshift', 'rshift', 'and', 'or', 'xor') and aa != ab:
        ld = rdt
    x = E.cast(xa, da, aa)
    y = E.cast(xb, db, ab)
    if aa != ld:
        x = E.cast(x, aa, ld)
    if ab != ld:
        y = E.cast(y, ab, ld)
    if not is_sym(x) and not is_sym(y) and not isinstance(x, Cx) and not isinstance(y, Cx):
        with rnp.errstate(all='ignore'):
            r = _UF[op](rnp.asarray(x, dtype=ld), rnp.asarray(y, dtype=ld))
            return ndarray_impl(_obj0(r.astype(rdt).item()), rdt, [False])
    r = E.elem_binop(op, x, y, ld)
    return ndarray_impl(_obj0(r), rdt)


def _bin_kw(op, a, b, kw):
    """Binary ufunc call with numpy's keyword arguments: out= (written in place, same_kind casting checked by real numpy on
    empty probes) and dtype=; anything else is refused rather than ignored."""
    out = kw.pop('out', None)
    dtype = kw.pop('dtype', None)
    casting = kw.pop('casting', 'same_kind')
    if kw:
        raise E.ShimUnsupported(f'ufunc keyword arguments {sorted(kw)}')
    if dtype is not None:
        dt = rnp.dtype(dtype)
        a = _w(a).astype(dt)
        b = _w(b).astype(dt) if not isinstance(b, (int, float, builtins.bool)) else b
    r = _binop(op, a, b)
    if out is None:
        return r
    if isinstance(out, tuple):
        out, = out
    o = _w(out)
    if not rnp.can_cast(r.dtype, o.dtype, casting=casting):
        raise TypeError(f"Cannot cast ufunc '{op}' output from {r.dtype!r} to {o.dtype!r} with casting rule '{casting}'")
    o[...] = r.astype(o.dtype) if r.dtype != o.dtype else r
    return out


def bitwise_xor(a, b, **kw): return _bin_kw('xor', _w(a) if not isinstance(a, (int, builtins.bool)) else a, b, kw)
def bitwise_and(a, b, **kw): return _bin_kw('and', _w(a) if not isinstance(a, (int, builtins.bool)) else a, b, kw)
def bitwise_or(a, b, **kw): return _bin_kw('or', _w(a) if not isinstance(a, (int, builtins.bool)) else a, b, kw)
def add(a, b, **kw): return _bin_kw('add', _w(a), b, kw)
def subtract(a, b, **kw): return _bin_kw('sub', _w(a), b, kw)
def multiply(a, b, **kw): return _bin_kw('mul', _w(a), b, kw)
def divide(a, b, **kw): return _bin_kw('truediv', _w(a), b, kw)
true_divide = divide
def left_shift(a, b, **kw): return _bin_kw('lshift', _w(a), b, kw)
def right_shift(a, b, **kw): return _bin_kw('rshift', _w(a), b, kw)
def _maxmin(op, a, b):
    """numpy.maximum / minimum: element-wise, NaN propagates; symbolic elements give If(a >= b, a, b)."""
    a, b = _w(a), _w(b)
    if not a.sym and not b.sym:
        with rnp.errstate(all='ignore'):
            return _from_real((rnp.maximum if op == 'max' else rnp.minimum)(a.typed(), b.typed()))
    ld = rnp.result_type(a.dtype, b.dtype)
    xa = a.astype(ld) if a.dtype != ld else a
    xb = b.astype(ld) if b.dtype != ld else b

    def f(x, y):
        if E.is_special(x) and x != x:
            return x
        if E.is_special(y) and y != y:
            return y
        c = E.elem_binop('ge' if op == 'max' else 'le', x, y, ld)
        if not is_sym(c):
            return x if c else y
        return E.ite(c, x, y, ld)
    return ndarray_impl(_map2(f, xa.c, xb.c), ld)


def maximum(a, b, **kw):
    if kw:
        raise E.ShimUnsupported(f'maximum keyword arguments {sorted(kw)}')
    return _maxmin('max', a, b)


def minimum(a, b, **kw):
    if kw:
        raise E.ShimUnsupported(f'minimum keyword arguments {sorted(kw)}')
    return _maxmin('min', a, b)


def nan_to_num(x, copy=True, nan=0.0, posinf=None, neginf=None):
    a = _w(x)
    if not a.sym:
        return _from_real(rnp.nan_to_num(a.typed(), copy=True, nan=nan, posinf=posinf, neginf=neginf))
    if a.dtype.kind != 'f':
        return a.copy() if copy else a
    fi = rnp.finfo(a.dtype)
    hi = float(fi.max) if posinf is None else posinf
    lo = float(fi.min) if neginf is None else neginf

    def f(e):
        if E.is_special(e):
            return nan if e != e else (hi if e > 0 else lo)
        return e
    r = ndarray_impl(rnp.frompyfunc(f, 1, 1)(a.c) if a.c.ndim else _obj0(f(a.c[()])), a.dtype)
    if not copy:
        a.c[...] = r.c
        return x
    return r


def less(a, b): return _binop('lt', _w(a), b)
def greater(a, b): return _binop('gt', _w(a), b)
def equal(a, b): return _binop('eq', _w(a), b)
def not_equal(a, b): return _binop('ne', _w(a), b)
def logical_and(a, b): return _binop('and', _w(a).astype(bool_), _w(b).astype(bool_))
def logical_or(a, b): return _binop('or', _w(a).astype(bool_), _w(b).astype(bool_))


def power(a, b, dtype=None, **kw):
    a = _w(a)
    if dtype is not None:
        dt = rnp.dtype(dtype)
        if not a.sym:
            with rnp.errstate(all='ignore'):
                return _from_real(rnp.power(a.typed(), _real_arg(b), dtype=dt))
        a = a.astype(dt)
        r = _binop('pow', a, b)
        return r.astype(dt) if r.dtype != dt else r
    return _binop('pow', a, b)


def square(a, dtype=None, **kw):
    a = _w(a)
    if dtype is not None:
        dt = rnp.dtype(dtype)
        if not a.sym:
            with rnp.errstate(all='ignore'):
                return _from_real(rnp.square(a.typed(), dtype=dt))
        # numpy picks the loop from the requested output dtype and casts the input to it first
        a = a.astype(dt)
    return _binop('mul', a, a)


# ---------------------------------------------------------------------------------------------
# element-wise unary operations


def _unary(name, a, fsym, out_dtype=None):
    a = _w(a)
    if not a.sym:
        with rnp.errstate(all='ignore'):
            r = getattr(rnp, name)(a.typed())
        return _from_real(r if isinstance(r, rnp.ndarray) else rnp.asarray(r)) if a.ndim else _from_real(r)
    with rnp.errstate(all='ignore'):
        rdt = getattr(rnp, name)(rnp.empty(0, a.dtype)).dtype if out_dtype is None else rnp.dtype(out_dtype)
    src = a.dtype
    return ndarray_impl(_map1(lambda x: fsym(x, src, rdt), a.c), rdt)


def _neg(x, src, rdt):
    if not _elem_sym(x):
        return E.conc_cast(-rnp.asarray(x, dtype=src), None, rdt) if not isinstance(x, Cx) else Cx(-x.re, -x.im)
    if isinstance(x, Cx):
        return Cx(E.r_neg(x.re), E.r_neg(x.im))
    if z3.is_bv(x):
        return -x
    return -x


def negative(a): return _unary('negative', a, _neg)


def _abs(x, src, rdt):
    if isinstance(x, Cx) or isinstance(x, complex):
        x = E.as_cx(x)
        return E.r_sqrt(E.r_add(E.r_mul(x.re, x.re), E.r_mul(x.im, x.im)))
    if not is_sym(x):
        return E.conc_cast(abs(rnp.asarray(x, dtype=src)), None, rdt)
    if z3.is_bv(x):
        if src.kind == 'u':
            return x
        return z3.If(x < 0, -x, x)
    if z3.is_bool(x):
        return x
    return E.r_abs(x)


def absolute(a): return _unary('absolute', a, _abs)


abs = absolute  # noqa: A001
fabs = absolute


def _inv(x, src, rdt):
    if not is_sym(x):
        return E.conc_cast(~rnp.asarray(x, dtype=src), None, rdt)
    return z3.Not(x) if z3.is_bool(x) else ~x


def invert(a): return _unary('invert', a, _inv)


bitwise_not = invert
logical_not = lambda a: invert(_w(a).astype(bool_))  # noqa: E731


def sqrt(a):
    return _unary('sqrt', a, lambda x, s, r: E.mark_op(E.r_sqrt(E.to_real(x, s)), r))


def log(a):
    return _unary('log', a, lambda x, s, r: E.r_log(E.to_real(x, s)))


def isinf(a):
    return _unary('isinf', a, lambda x, s, r: (E.is_special(x) and x == x) if not isinstance(x, Cx) else False)


def isnan(a):
    return _unary('isnan', a, lambda x, s, r: (E.is_special(x) and x != x) if not isinstance(x, Cx) else False)


def isfinite(a):
    return _unary('isfinite', a, lambda x, s, r: not E.is_special(x))


def _conj(x, s, r):
    if isinstance(x, Cx):
        return Cx(x.re, E.r_neg(x.im))
    if isinstance(x, complex):
        return x.conjugate()
    return x


def conjugate(a): return _unary('conjugate', a, _conj)


conj = conjugate


def real(a): return _w(a).real
def imag(a): return _w(a).imag


def sign(a):
    def f(x, s, r):
        xr = E.to_real(x, s)
        return z3.If(xr > 0, E.R(1), z3.If(xr < 0, E.R(-1), E.R(0)))
    return _unary('sign', a, f)


# ---------------------------------------------------------------------------------------------
# reductions


def _axes(axis, ndim):
    if axis is None:
        return None
    if isinstance(axis, (tuple, list)):
        return tuple(sorted(int(x) % ndim for x in axis))
    return (int(axis) % ndim,)


def _fold(f, c, axes, keepdims, empty_value=None):
    """Fold binary element function f over the given axes of object carrier c."""
    if axes is None:
        c = c.reshape(-1)
        axes = (0,)
        all_axes = True
    else:
        all_axes = False
    uf = rnp.frompyfunc(f, 2, 1)
    r = c
    for ax in sorted(axes, reverse=True):
        if r.shape[ax] == 0:
            if empty_value is None:
                raise ValueError('zero-size array to reduction operation which has no identity')
            shp = list(r.shape)
            shp[ax] = 1
            r = _objarr(tuple(shp), lambda i: empty_value)
            r = r if (keepdims and not all_axes) else r.reshape([s for i, s in enumerate(shp) if i != ax])
            continue
        r = uf.reduce(r, axis=ax, keepdims=keepdims and not all_axes)
        if not isinstance(r, rnp.ndarray):
            r = _obj0(r)
    return r


def _reduce_generic(name, a, axis, f, keepdims=False, dtype=None, pre=None, empty_value=None, **kw):
    a = _w(a)
    where_ = kw.pop('where', True)
    has_init = 'initial' in kw
    initial = kw.pop('initial', None)
    kw.pop('out', None)
    if kw:
        raise ShimUnsupported(f'numpy.{name}: unsupported keyword arguments {sorted(kw)}')
    wsym = _is_shim(where_) and where_.sym
    if not a.sym and not wsym and not _any_sym([initial]):
        with rnp.errstate(all='ignore'):
            k = dict(axis=axis)
            if keepdims:
                k['keepdims'] = True
            if dtype is not None:
                k['dtype'] = rnp.dtype(dtype)
            if where_ is not True:
                k['where'] = _real_arg(where_)
            if has_init:
                k['initial'] = _real_arg(initial)
            r = getattr(rnp, name)(a.typed(), **k)
        return _from_real(r)
    with rnp.errstate(all='ignore'):
        k = {}
        if dtype is not None:
            k['dtype'] = rnp.dtype(dtype)
        rdt = getattr(rnp, name)(rnp.zeros((1,) * builtins.max(a.ndim, 1), a.dtype), **k).dtype
    src = a.dtype
    c = a.c
    if pre is not None:
        c = _map1(lambda x: pre(x, src, rdt), c)
    skipping = False
    if where_ is not True:
        m = _w(where_)
        mask = _concretize_mask(m) if m.sym else m.typed().astype(builtins.bool)
        mask = rnp.broadcast_to(mask, c.shape)
        c = c.copy()
        c[~mask] = _SKIP
        skipping = True
        if not has_init and empty_value is None:
            raise ValueError('reduction operation does not have an identity, so to use a where mask one has to specify \'initial\'')

    def ff(x, y):
        if x is _SKIP:
            return y
        if y is _SKIP:
            return x
        return f(x, y, rdt)
    r = _fold(ff if skipping else (lambda x, y: f(x, y, rdt)), c, _axes(axis, a.ndim), keepdims, empty_value)
    if has_init or skipping:
        ini = E.cast(initial, None, rdt) if has_init and not _is_shim(initial) else (initial._single() if has_init else empty_value)
        r = _map1(lambda x: ini if x is _SKIP else (f(ini, x, rdt) if has_init else x), r)
    out = ndarray_impl(r, rdt)
    if out.ndim == 0:
        return out._scalar(out.c[()])
    return out


class _Skip:
    pass


_SKIP = _Skip()


def _sum_pre(x, src, rdt):
    if is_sym(x) and z3.is_bool(x) and rdt.kind in 'iu':
        return z3.If(x, z3.IntVal(1), z3.IntVal(0))
    return E.cast(x, src, rdt)


def sum(a, axis=None, dtype=None, keepdims=False, **kw):  # noqa: A001
    return _reduce_generic('sum', a, axis, lambda x, y, d: E.elem_binop('add', x, y, d), keepdims, dtype, pre=_sum_pre, empty_value=0, **kw)


def _nan_to(v):
    def pre(x, src, rdt):
        if E.is_special(x) and x != x:
            return v
        return E.cast(x, src, rdt)
    return pre


def nansum(a, axis=None, dtype=None, keepdims=False, **kw):
    return _reduce_generic('nansum', a, axis, lambda x, y, d: E.elem_binop('add', x, y, d), keepdims, dtype, pre=_nan_to(0), empty_value=0, **kw)


def _mx(x, y, d, gt='gt'):
    if not is_sym(x) and not is_sym(y):
        if E.is_special(x) and x != x:
            return x
        if E.is_special(y) and y != y:
            return y
        return x if ((x > y) if gt == 'gt' else (x < y)) or x == y else y
    if (E.is_special(x) and x != x) or (E.is_special(y) and y != y):
        return math.nan
    for u, v in ((x, y), (y, x)):
        if E.is_special(u):      # +-inf against a finite symbolic value
            return u if ((u > 0) == (gt == 'gt')) else v
    c = E.elem_binop('ge' if gt == 'gt' else 'le', x, y, d)
    return E.ite(c, x, y, d)


def max(a, axis=None, keepdims=False, **kw):  # noqa: A001
    return _reduce_generic('max', a, axis, lambda x, y, d: _mx(x, y, d), keepdims, **kw)


def min(a, axis=None, keepdims=False, **kw):  # noqa: A001
    return _reduce_generic('min', a, axis, lambda x, y, d: _mx(x, y, d, 'lt'), keepdims, **kw)


amax, amin = max, min


def _nanfold(gt):
    def f(x, y, d):
        if x is _SKIP:
            return y
        if y is _SKIP:
            return x
        return _mx(x, y, d, gt)
    return f


def _nanmm(name, gt, a, axis, keepdims):
    a = _w(a)
    if not a.sym:
        with rnp.errstate(all='ignore'):
            import warnings
            with warnings.catch_warnings():
                warnings.simplefilter('ignore')
                return _from_real(getattr(rnp, name)(a.typed(), axis=axis, **({'keepdims': True} if keepdims else {})))
    pre = lambda x, s, r: _SKIP if (E.is_special(x) and x != x) else E.cast(x, s, r)  # noqa: E731
    r = _reduce_generic(name, a, axis, _nanfold(gt), keepdims, pre=pre)
    rw = _w(r) if not _is_shim(r) else r
    c = _map1(lambda x: math.nan if x is _SKIP else x, rw.c)
    out = ndarray_impl(c, rw.dtype)
    return out if out.ndim else out._scalar(out.c[()])


def nanmax(a, axis=None, keepdims=False, out=None): return _nanmm('nanmax', 'gt', a, axis, keepdims)
def nanmin(a, axis=None, keepdims=False, out=None): return _nanmm('nanmin', 'lt', a, axis, keepdims)


def _count(a, axis, keepdims=False):
    a = _w(a)
    n = 1
    if axis is None:
        return a.size
    for ax in _axes(axis, a.ndim):
        n *= a.shape[ax]
    return n


def mean(a, axis=None, dtype=None, keepdims=False, **kw):
    a = _w(a)
    if not a.sym:
        with rnp.errstate(all='ignore'):
            k = dict(axis=axis)
            if dtype is not None:
                k['dtype'] = rnp.dtype(dtype)
            if keepdims:
                k['keepdims'] = True
            return _from_real(rnp.mean(a.typed(), **k))
    with rnp.errstate(all='ignore'):
        rdt = rnp.mean(rnp.zeros((1,) * builtins.max(a.ndim, 1), a.dtype), **({'dtype': rnp.dtype(dtype)} if dtype is not None else {})).dtype
    s = sum(a.astype(rdt), axis=axis, keepdims=keepdims)
    r = _binop('truediv', _w(s), _count(a, axis))
    r = r.astype(rdt) if _is_shim(r) and r.dtype != rdt else r
    return r if not _is_shim(r) or r.ndim else r._scalar(r.c[()])


def nanmean(a, axis=None, dtype=None, keepdims=False, **kw):
    a = _w(a)
    if not a.sym:
        with rnp.errstate(all='ignore'):
            import warnings
            with warnings.catch_warnings():
                warnings.simplefilter('ignore')
                k = dict(axis=axis)
                if dtype is not None:
                    k['dtype'] = rnp.dtype(dtype)
                return _from_real(rnp.nanmean(a.typed(), **k))
    if builtins.any(E.is_special(x) for x in a.c.flat):
        raise ShimUnsupported('nanmean with special values among symbolic elements')
    return mean(a, axis=axis, dtype=dtype, keepdims=keepdims)


def var(a, axis=None, dtype=None, ddof=0, keepdims=False, **kw):
    a = _w(a)
    if not a.sym:
        with rnp.errstate(all='ignore'):
            k = dict(axis=axis, ddof=ddof)
            if dtype is not None:
                k['dtype'] = rnp.dtype(dtype)
            return _from_real(rnp.var(a.typed(), **k))
    m = mean(a, axis=axis, dtype=dtype, keepdims=True)
    d = _binop('sub', a.astype(_w(m).dtype), m)
    s = sum(_binop('mul', d, d), axis=axis, keepdims=keepdims)
    return _binop('truediv', _w(s), _count(a, axis) - ddof)


def std(a, axis=None, dtype=None, ddof=0, keepdims=False, **kw):
    a = _w(a)
    if not a.sym:
        with rnp.errstate(all='ignore'):
            k = dict(axis=axis, ddof=ddof)
            if dtype is not None:
                k['dtype'] = rnp.dtype(dtype)
            return _from_real(rnp.std(a.typed(), **k))
    return sqrt(var(a, axis=axis, dtype=dtype, ddof=ddof, keepdims=keepdims))


def nanstd(a, axis=None, dtype=None, ddof=0, **kw):
    a = _w(a)
    if a.sym and builtins.any(E.is_special(x) for x in a.c.flat):
        raise ShimUnsupported('nanstd with special values among symbolic elements')
    if not a.sym:
        with rnp.errstate(all='ignore'):
            import warnings
            with warnings.catch_warnings():
                warnings.simplefilter('ignore')
                k = dict(axis=axis, ddof=ddof)
                if dtype is not None:
                    k['dtype'] = rnp.dtype(dtype)
                return _from_real(rnp.nanstd(a.typed(), **k))
    return std(a, axis=axis, dtype=dtype, ddof=ddof)


def all(a, axis=None, **kw):  # noqa: A001
    a = _w(a)
    if a.dtype.kind != 'b':
        a = _binop('ne', a, 0)
    return _reduce_generic('all', a, axis, lambda x, y, d: E.b_op('and', x, y), empty_value=True)


def any(a, axis=None, **kw):  # noqa: A001
    a = _w(a)
    if a.dtype.kind != 'b':
        a = _binop('ne', a, 0)
    return _reduce_generic('any', a, axis, lambda x, y, d: E.b_op('or', x, y), empty_value=False)


def count_nonzero(a, axis=None, **kw):
    a = _w(a)
    if not a.sym:
        return _from_real(rnp.count_nonzero(a.typed(), axis=axis))
    return sum(_binop('ne', a, 0) if a.dtype.kind != 'b' else a, axis=axis)


def cumsum(a, axis=None, dtype=None, **kw):
    a = _w(a)
    if not a.sym:
        return _from_real(rnp.cumsum(a.typed(), axis=axis, **({'dtype': rnp.dtype(dtype)} if dtype is not None else {})))
    rdt = rnp.cumsum(rnp.zeros((1,) * a.ndim, a.dtype), **({'dtype': rnp.dtype(dtype)} if dtype is not None else {})).dtype
    src = a.dtype
    c = _map1(lambda x: E.cast(x, src, rdt), a.c)
    if axis is None:
        c = c.reshape(-1)
        axis = 0
    uf = rnp.frompyfunc(lambda x, y: E.elem_binop('add', x, y, rdt), 2, 1)
    return ndarray_impl(uf.accumulate(c, axis=axis), rdt)


def diff(a, n=1, axis=-1, **kw):
    a = _w(a)
    if not a.sym:
        return _from_real(rnp.diff(a.typed(), n=n, axis=axis))
    for _ in range(n):
        sl1 = [slice(None)] * a.ndim
        sl2 = [slice(None)] * a.ndim
        sl1[axis] = slice(1, None)
        sl2[axis] = slice(None, -1)
        a = _binop('sub', a[tuple(sl1)], a[tuple(sl2)]) if a.dtype.kind != 'b' else _binop('ne', a[tuple(sl1)], a[tuple(sl2)])
    return a


def argmin(a, axis=None, **kw):
    if isinstance(a, list) and builtins.any(isinstance(x, (ndarray_impl, z3.ExprRef)) for x in a):
        # list of scalars with symbolic entries (kernel timings): first minimal index, decided by branching
        best = 0
        for i in range(1, len(a)):
            lt = _binop('lt', _w(a[i]) if not isinstance(a[i], (int, float)) else a[i], a[best]) if not (isinstance(a[i], (int, float)) and isinstance(a[best], (int, float))) else (a[i] < a[best])
            if lt if isinstance(lt, builtins.bool) else builtins.bool(lt):
                best = i
        return best
    a = _w(a)
    if not a.sym:
        return _from_real(rnp.argmin(a.typed(), axis=axis))
    if axis is not None or a.ndim != 1:
        raise ShimUnsupported('argmin on a symbolic n-d array')
    best = 0
    for i in range(1, a.shape[0]):
        if builtins.bool(_binop('lt', a[i], a[best])):
            best = i
    return best


def argmax(a, axis=None, **kw):
    a = _w(a)
    if not a.sym:
        return _from_real(rnp.argmax(a.typed(), axis=axis))
    if axis is not None or a.ndim != 1:
        raise ShimUnsupported('argmax on a symbolic n-d array')
    best = 0
    for i in range(1, a.shape[0]):
        if builtins.bool(_binop('gt', a[i], a[best])):
            best = i
    return best


# ---------------------------------------------------------------------------------------------
# products


def _dot_elems(xs, ys, ld):
    acc = None
    for x, y in zip(xs, ys):
        p = E.elem_binop('mul', x, y, ld)
        acc = p if acc is None else E.elem_binop('add', acc, p, ld)
    return acc if acc is not None else 0


def matmul(a, b, **kw):
    a, b = _w(a), _w(b)
    if not a.sym and not b.sym:
        with rnp.errstate(all='ignore'):
            return _from_real(rnp.matmul(a.typed(), b.typed()))
    rdt = rnp.matmul(rnp.zeros((1,) * builtins.max(a.ndim, 1), a.dtype), rnp.zeros((1,) * builtins.max(b.ndim, 1), b.dtype)).dtype
    ld = rdt if rdt.kind != 'b' else rdt
    ca = _map1(lambda x: E.cast(x, a.dtype, ld), a.c)
    cb = _map1(lambda x: E.cast(x, b.dtype, ld), b.c)
    if a.ndim > 2 or b.ndim > 2 or a.ndim == 0 or b.ndim == 0:
        raise ShimUnsupported('matmul beyond 2-d on symbolic arrays')
    A = ca if ca.ndim == 2 else ca.reshape(1, -1)
    B = cb if cb.ndim == 2 else cb.reshape(-1, 1)
    if A.shape[1] != B.shape[0]:
        raise ValueError(f'matmul: Input operand 1 has a mismatch in its core dimension 0 (size {B.shape[0]} is different from {A.shape[1]})')
    out = rnp.empty((A.shape[0], B.shape[1]), dtype=object)
    for i in range(A.shape[0]):
        for j in range(B.shape[1]):
            out[i, j] = _dot_elems(A[i, :], B[:, j], ld)
    if a.ndim == 1 and b.ndim == 1:
        r = ndarray_impl(_obj0(out[0, 0]), rdt)
        return r._scalar(r.c[()])
    if a.ndim == 1:
        out = out[0]
    elif b.ndim == 1:
        out = out[:, 0]
    return ndarray_impl(out, rdt)


def dot(a, b, **kw):
    a, b = _w(a), _w(b)
    if a.ndim == 0 or b.ndim == 0:
        return _binop('mul', a, b)
    if a.ndim <= 2 and b.ndim <= 2:
        return matmul(a, b)
    if not a.sym and not b.sym:
        return _from_real(rnp.dot(a.typed(), b.typed()))
    raise ShimUnsupported('dot beyond 2-d on symbolic arrays')


def outer(a, b, **kw):
    a, b = _w(a).ravel(), _w(b).ravel()
    return _binop('mul', a[:, None], b[None, :])


def vdot(a, b):
    return dot(_w(a).ravel(), _w(b).ravel())


# ---------------------------------------------------------------------------------------------
# structure functions


def _struct(name):
    f = getattr(rnp, name)

    def g(a, *args, **kw):
        a = _w(a)
        return ndarray_impl(f(a.c, *_real_arg(args), **_real_arg(kw)), a.dtype, a._sym)
    g.__name__ = name
    return g


roll = _struct('roll')
flip = _struct('flip')
swapaxes = _struct('swapaxes')
transpose = _struct('transpose')
squeeze = _struct('squeeze')
expand_dims = _struct('expand_dims')
moveaxis = _struct('moveaxis')
tile = _struct('tile')
repeat = _struct('repeat')
ravel = _struct('ravel')
atleast_1d = _struct('atleast_1d')
atleast_2d = _struct('atleast_2d')
broadcast_to = _struct('broadcast_to')
fliplr = _struct('fliplr')
flipud = _struct('flipud')


def reshape(a, shape, **kw):
    return _w(a).reshape(shape)


def take(a, indices, axis=None, **kw):
    a = _w(a)
    idx = _w(indices) if not isinstance(indices, (int, rnp.integer)) else indices
    if _is_shim(idx) and idx.sym:
        if axis is None and a.ndim == 1:
            return _lookup(a, idx)
        raise ShimUnsupported('take with symbolic indices on n-d array')
    return ndarray_impl(rnp.take(a.c, _real_arg(idx), axis=axis, **kw), a.dtype, a._sym)


def _join(name):
    f = getattr(rnp, name)

    def g(arrs, *args, **kw):
        ws = [_w(x) for x in arrs]
        kw.pop('dtype', None)
        rdt = rnp.result_type(*[w.dtype for w in ws]) if ws else rnp.dtype(float)
        cs = [(w.c if w.dtype == rdt or not w.sym else w.astype(rdt).c) if w.dtype == rdt else w.astype(rdt).c for w in ws]
        return ndarray_impl(f(cs, *args, **kw), rdt)
    g.__name__ = name
    return g


hstack = _join('hstack')
vstack = _join('vstack')
concatenate = _join('concatenate')
stack = _join('stack')
column_stack = _join('column_stack')
dstack = _join('dstack')


def append(arr, values, axis=None):
    arr, values = _w(arr), _w(values)
    if axis is None:
        return concatenate([arr.ravel(), values.ravel()])
    return concatenate([arr, values], axis=axis)


class _R:
    def __getitem__(self, key):
        if not isinstance(key, tuple):
            key = (key,)
        parts = []
        for k in key:
            if isinstance(k, slice):
                parts.append(_from_real(rnp.r_[k]))
            elif isinstance(k, (ndarray_impl, rnp.ndarray, list, tuple)):
                w = _w(k)
                parts.append(w if w.ndim else w.reshape(1))
            else:
                parts.append(_w(rnp.asarray(k)).reshape(1))
        return concatenate(parts)


r_ = _R()


def _concretize_mask(m):
    """Symbolic boolean array -> concrete numpy bool array (forks on every symbolic entry)."""
    out = rnp.zeros(m.shape, dtype=builtins.bool)
    for i in rnp.ndindex(m.shape):
        x = m.c[i]
        if is_sym(x):
            if CTX.ex is None:
                raise ShimUnsupported('symbolic mask used for selection without an executor')
            out[i] = CTX.ex.branch(x)
        else:
            out[i] = builtins.bool(x)
    return out


def where(cond, x=None, y=None):
    cond = _w(cond)
    if x is None and y is None:
        if cond.dtype.kind != 'b':
            cond = _binop('ne', cond, 0)
        m = _concretize_mask(cond) if cond.sym else cond.typed()
        return tuple(_from_real(r) for r in rnp.where(m))
    xw, yw = _w(x) if not isinstance(x, (int, float, builtins.bool)) else x, _w(y) if not isinstance(y, (int, float, builtins.bool)) else y
    cx, dx, sx = _operand(xw)
    cy, dy, sy = _operand(yw)
    if not cond.sym and not sx and not sy:
        return _from_real(rnp.where(cond.typed(), _real_arg(xw), _real_arg(yw)))
    rdt = rnp.result_type(_probe(cx, dx), _probe(cy, dy))
    r = _map3(lambda c, a, b: E.ite(c, E.cast(a, dx, rdt), E.cast(b, dy, rdt), rdt), cond.c,
              cx if dx is not None else _obj0(cx), cy if dy is not None else _obj0(cy))
    return ndarray_impl(r, rdt)


def nonzero(a):
    return where(a)


def array_equal(a, b, **kw):
    a, b = _w(a), _w(b)
    if a.shape != b.shape:
        return False
    r = all(_binop('eq', a, b))
    return builtins.bool(r)


def unpackbits(a, axis=None, **kw):
    a = _w(a)
    if not a.sym:
        return _from_real(rnp.unpackbits(a.typed(), axis=axis, **kw))
    if a.dtype != rnp.uint8:
        raise TypeError('Expected an input array of unsigned byte data type')
    if axis is None:
        a = a.ravel()
        axis = 0
    axis = axis % a.ndim
    shp = list(a.shape)
    shp[axis] *= 8
    out = rnp.empty(tuple(shp), dtype=object)
    for i in rnp.ndindex(a.shape):
        x = a.c[i]
        for b in range(8):
            j = list(i)
            j[axis] = i[axis] * 8 + b
            if is_sym(x):
                out[tuple(j)] = z3.ZeroExt(7, z3.Extract(7 - b, 7 - b, x))
            else:
                out[tuple(j)] = (int(x) >> (7 - b)) & 1
    return ndarray_impl(out, rnp.uint8)


def round(a, decimals=0, **kw):  # noqa: A001
    a = _w(a)
    if a.sym:
        raise ShimUnsupported('round on symbolic values')
    return _from_real(rnp.round(a.typed(), decimals))


around = round


def isscalar(x):
    return rnp.isscalar(x)


def shape(a):
    return _w(a).shape


def ndim(a):
    return _w(a).ndim


def may_share_memory(a, b):
    return rnp.may_share_memory(_w(a).c, _w(b).c)


shares_memory = may_share_memory


# ---------------------------------------------------------------------------------------------
# symbolic table lookups

_TABLE_FN = {}     # id(carrier) -> (name, z3 function, index width, value width, values)
_ARR_CACHE = {}


def register_table(arr, name):
    """Reads of `arr` (1-D uint8 table of 256 entries) at symbolic indexes become applications of an SMT function symbol."""
    t = arr.typed()
    f = z3.Function(f'T_{name}', z3.BitVecSort(8), z3.BitVecSort(t.dtype.itemsize * 8))
    _TABLE_FN[id(arr.c)] = (name, f, 8, t.dtype.itemsize * 8, [int(v) for v in t])
    return f


def unregister_tables():
    _TABLE_FN.clear()


def table_functions():
    return {v[0]: v for v in _TABLE_FN.values()}


def _z3_table(t, isort):
    key = (t.tobytes(), t.dtype.str, str(isort))
    a = _ARR_CACHE.get(key)
    if a is None:
        w = t.dtype.itemsize * 8
        vals = [int(v) for v in t]
        from collections import Counter
        default = Counter(vals).most_common(1)[0][0]
        vs = z3.BitVecSort(w) if t.dtype.kind in 'iu' else z3.RealSort()
        mk = (lambda v: z3.BitVecVal(v, w)) if t.dtype.kind in 'iu' else (lambda v: E.R(v))
        a = z3.K(isort, mk(default))
        for i, v in enumerate(vals):
            if v != default:
                a = z3.Store(a, z3.BitVecVal(i, isort.size()) if z3.is_bv_sort(isort) else z3.IntVal(i), mk(v))
        if len(_ARR_CACHE) < 512:
            _ARR_CACHE[key] = a
    return a


def _lookup(tab, idx):
    """tab[idx] with symbolic integer index array idx (indexing the first axis of tab)."""
    CTX.stats['lookups'] += 1
    if idx.dtype.kind not in 'iu':
        raise IndexError('arrays used as indices must be of integer (or boolean) type')
    L = tab.shape[0]
    idt = idx.dtype
    reg = _TABLE_FN.get(id(tab.c)) if tab.ndim == 1 else None
    conc = not tab.sym
    typed = tab.typed() if conc else None

    def one(x):
        if not is_sym(x):
            r = tab.c[int(x)]
            return r
        if tab.ndim != 1:
            raise ShimUnsupported('symbolic index into an n-d array')
        if z3.is_bv(x):
            w = x.size()
            inr = z3.ULT(x, z3.BitVecVal(L, w)) if (L < (1 << w)) else None
            if idt.kind == 'i':
                inr = z3.And(x >= 0, x < L) if L < (1 << (w - 1)) else (x >= 0)   # negative indices are outside the supported claim
            if inr is not None and E.maybe_bits(x) >= L:
                CTX.side.append(('index', inr))
            if reg is not None and L == 256:
                return reg[1](x if w == 8 else z3.Extract(7, 0, x))
            if conc and typed.dtype.kind in 'iu':
                kb = L.bit_length() - 1
                if L == (1 << kb) and 0 < kb < w:
                    # power-of-two table: index with the low kb bits (equal to x under the recorded in-range side condition)
                    return z3.Select(_z3_table(typed, z3.BitVecSort(kb)), z3.Extract(kb - 1, 0, x))
                return z3.Select(_z3_table(typed, z3.BitVecSort(w)), x)
            r = tab.c[L - 1]
            for i in range(L - 2, -1, -1):
                r = E.ite(x == z3.BitVecVal(i, w), tab.c[i], r, tab.dtype)
            return r
        if x.is_int():
            CTX.side.append(('index', z3.And(x >= -L, x < L)))
            xi = z3.If(x < 0, x + L, x)
            if conc and typed.dtype.kind in 'iu':
                return z3.BV2Int(z3.Select(_z3_table(typed, z3.IntSort()), xi), is_signed=(typed.dtype.kind == 'i'))
            r = tab.c[L - 1]
            for i in range(L - 2, -1, -1):
                r = E.ite(xi == i, tab.c[i], r, tab.dtype)
            return r
        raise IndexError('symbolic real used as index')
    if tab.ndim == 1:
        out = _map1(one, idx.c)
        r = ndarray_impl(out, tab.dtype)
        return r if idx.ndim else r._scalar(out[()])
    # n-d table: only concrete entries inside idx are supported element-wise
    raise ShimUnsupported('symbolic index array into an n-d array')


_ADDR_CACHE = {}


def _addresses(c):
    """int64 array of the memory address of every element slot of carrier c (same shape)."""
    ptr = c.__array_interface__['data'][0]
    k = (ptr, c.shape, c.strides)
    a = _ADDR_CACHE.get(k)
    if a is None:
        a = rnp.full(c.shape, ptr, dtype=rnp.int64)
        for ax, (n_, st) in enumerate(zip(c.shape, c.strides)):
            shp = [1] * c.ndim
            shp[ax] = n_
            a = a + (rnp.arange(n_, dtype=rnp.int64) * st).reshape(shp)
        if len(_ADDR_CACHE) < 4096:
            _ADDR_CACHE[k] = a
    return a


def _log_access(kind, arr, key):
    fp = CTX.footprint
    if fp is None:
        return
    try:
        sel = _addresses(arr.c)[key]
    except Exception:
        return
    fp.append((kind, frozenset(rnp.asarray(sel).reshape(-1).tolist()), arr.c))      # the carrier is kept alive: its addresses cannot be reused


# ---------------------------------------------------------------------------------------------
# symbolic inputs


def _name(prefix, idx):
    return prefix + ''.join(f'_{i}' for i in idx)


def sym_bv(prefix, shape, dt='uint8'):
    dt = rnp.dtype(dt)
    w = dt.itemsize * 8
    if isinstance(shape, int):
        shape = (shape,)
    return ndarray_impl(_objarr(shape, lambda i: E.register(z3.BitVec(_name(prefix, i), w))), dt)


def sym_real(prefix, shape, dt='float64'):
    if isinstance(shape, int):
        shape = (shape,)
    return ndarray_impl(_objarr(shape, lambda i: E.register(z3.Real(_name(prefix, i)))), rnp.dtype(dt))


def sym_int(prefix, shape, dt='int64'):
    if isinstance(shape, int):
        shape = (shape,)
    return ndarray_impl(_objarr(shape, lambda i: E.register(z3.Int(_name(prefix, i)))), rnp.dtype(dt))


def sym_bool(prefix, shape):
    if isinstance(shape, int):
        shape = (shape,)
    return ndarray_impl(_objarr(shape, lambda i: z3.Bool(_name(prefix, i))), rnp.dtype(builtins.bool))


def from_terms(terms, dt):
    """Build an array from a (nested) list of z3 terms / python numbers."""
    c = rnp.empty(rnp.shape(rnp.empty(_shape_of(terms))), dtype=object)
    for i in rnp.ndindex(c.shape):
        x = terms
        for j in i:
            x = x[j]
        c[i] = x
    return ndarray_impl(c, rnp.dtype(dt))


def _shape_of(t):
    s = []
    while isinstance(t, (list, tuple)):
        s.append(len(t))
        t = t[0] if t else None
    return tuple(s)


def const(a, force_symbolic_path=False):
    """Wrap a real numpy array."""
    return _from_real(rnp.asarray(a))


def terms(a):
    """Flat list of the element terms of a shim array."""
    return list(_w(a).c.reshape(-1))


# shim versions of builtins that scared applies to array scalars ------------------------------------


class _IntMeta(type):
    def __instancecheck__(cls, x):
        return isinstance(x, int)

    def __subclasscheck__(cls, sub):
        return issubclass(sub, int)


class shim_int(int, metaclass=_IntMeta):
    """Stand-in for the builtin int inside interpreted kernels: int(x) of a symbolic scalar truncates toward zero (numba / C semantics)."""

    def __new__(cls, x=0, *a):
        if _is_shim(x) and x.sym:
            e0 = x._single()
            if z3.is_arith(e0) and e0.is_real() and x.dtype.kind == 'f':
                return ndarray_impl(_obj0(E.trunc_int(e0)), rnp.dtype('int64'))
            return x.astype('int64')
        return int(x, *a)


# submodules ---------------------------------------------------------------------------------
from . import symnp_extra as _extra  # noqa: E402

linalg = _extra.Linalg(_this)
fft = _extra.FFT(_this)
random = _LiftedModule('random', rnp.random)
