"""C08 - convergence traces are the attack scores on successive prefixes of the traces (DESIGN.md section 5, C08)."""
import itertools
import numpy as rnp
import z3

from vp import symnp as S, elem as E
from vp.elem import CTX
from vp.run import new_result
from harness.common import explore
from harness import statlib as L
from harness.C01 import equal_elem
from harness.ths import FakeTHS
import harness.C02 as C02

ID = 'C08'
LEVEL = 'model_checking'
META = dict(
    functions=['scared.analysis.base:BaseAttack._set_convergence/_compute_batch_size/_batch_loop_compute/_final_compute/_compute_convergence_traces/compute_results', 'scared.analysis.base:_BaseAnalysis.run'],
    bounds=dict(quick='step lemma: one _batch_loop_compute / _final_compute from SYMBOLIC integer state (first point p0, processed traces q, convergence step; all values); '
                      'run level: real CPAAttack and SNRAttack runs on seeded integer traces, N in {7, 10, 16}, convergence_step in {2,3,5,7,11,20}, container batch size in {2,3,4,16}, one and two run() calls; an SNRAttack with two classes (all populated from the first point) on 10 traces; a CPAAttack with convergence_step 1 on 70 traces (70 columns)',
                thorough='N in {7, 10, 13, 16, 24, 32}; two-class SNR runs on 10 / 16 / 24 traces; step 1 on 70 and 130 traces'),
    assumptions=['step lemma: compute() is replaced by a stub returning fresh symbolic results (the convergence bookkeeping does not look inside)', 'run level: column i is matched against the scores of a fresh attack on every prefix (numerical equality, 1e-9)',
                 'spacing is required between regular points; the remainder column appended at the end of a run is exempt on both sides'],
    outside=['trace sets above 24 traces at run level (the step lemma covers all counter values)'],
    stubs=['TraceHeaderSet stand-in', 'compute() stub in the step lemma'],
)


def prepare(tier, seed):
    C02.prepare(tier, seed)


def jobs(tier, seed):
    js = [dict(name='step-lemma', kind='step')]
    for cls in ('CPAAttack', 'SNRAttack'):
        for n in ((7, 10, 16) if tier == 'quick' else (7, 10, 13, 16, 24, 32)):
            js.append(dict(name=f'run-{cls}-n{n}', kind='run', cls=cls, n=n, seed=seed))
    # every class populated from the first convergence point on (Monobit model, classes [0, 1])
    js += [dict(name=f'run-SNRAttack-2classes-n{n}', kind='run', cls='SNRAttack', n=n, seed=seed, two=True) for n in ((10,) if tier == 'quick' else (10, 16, 24))]
    # long convergence histories (more columns than any growth chunk of the column buffer)
    js += [dict(name=f'run-CPAAttack-n{n}-step1', kind='run', cls='CPAAttack', n=n, seed=seed, steps=[1], batches=[16]) for n in ((70,) if tier == 'quick' else (70, 130))]
    return js


def job_step(job, res):
    def body(ex, pr):
        an, sf, model = C02.make_analysis('CPAAttack', convergence_step=3)
        p0 = E.register(z3.Int('p0'))
        q = E.register(z3.Int('q'))
        step = E.register(z3.Int('step'))
        ex.assume(z3.And(p0 >= 0, q > p0, step >= 1))
        cnt = [0]

        def fake_compute():
            cnt[0] += 1
            return S.sym_real(f'res{cnt[0]}', (2, 3), 'float64')
        an.compute = fake_compute
        an.discriminant = lambda r: r.sum(axis=-1) if hasattr(r, 'sum') else r
        wrap = lambda t: S.from_terms([t], 'int64')[0]  # noqa: E731
        an.convergence_step = wrap(step)
        an.processed_traces = wrap(q)
        scenario = ex.choose(3)
        old = S.sym_real('old', (2, 2), 'float64')
        an.convergence_traces = None if scenario == 0 else old
        an._batches_processed = [wrap(p0)]
        an._batch_loop_compute()
        appended = an.convergence_traces is not None and (scenario == 0 or an.convergence_traces.shape[-1] == 3)
        r, _ = ex.check(z3.Not(q - p0 >= step))
        must = r == 'unsat'
        r2, _ = ex.check(q - p0 >= step)
        mustnot = r2 == 'unsat'
        goals = [z3.BoolVal((appended and must) or (not appended and mustnot))]
        if appended:
            col = an.convergence_traces.c[..., -1]
            goals.append(z3.BoolVal(all(equal_elem(u, v) for u, v in zip(col.reshape(-1), S._w(an.scores).c.reshape(-1)))))
            goals.append(z3.BoolVal(len(an._batches_processed) == 1 and z3.is_true(z3.simplify(S._w(an._batches_processed[0]).c.reshape(-1)[0] == q))))
            if scenario != 0:
                goals.append(z3.BoolVal(all(equal_elem(u, v) for u, v in zip(an.convergence_traces.c[..., :-1].reshape(-1), old.c.reshape(-1)))))
        else:
            goals.append(z3.BoolVal(len(an._batches_processed) == 2))
        pr.prove(z3.And(*goals), 'from ANY state (p0 < q, step >= 1): a column is appended iff q - p0 >= step; it is the scores of compute() at q; earlier columns are kept; the reference point becomes q',
                 lambda m: dict(kind='step', p0=m.eval(p0, model_completion=True).as_long(), q=m.eval(q, model_completion=True).as_long(), step=m.eval(step, model_completion=True).as_long(), key=dict(kind='step')))
        # final compute: a remainder column iff traces were processed after the last point
        for pending in (False, True):
            an2, _, _ = C02.make_analysis('CPAAttack', convergence_step=3)
            an2.compute = fake_compute
            an2.discriminant = an.discriminant
            an2.convergence_step = wrap(step)
            an2.processed_traces = wrap(q)
            an2.convergence_traces = old
            an2._batches_processed = [wrap(p0)] + ([wrap(q)] if pending else [])
            an2._final_compute()
            grew = an2.convergence_traces.shape[-1] == 3
            okf = grew == pending and (not grew or all(equal_elem(u, v) for u, v in zip(an2.convergence_traces.c[..., -1].reshape(-1), S._w(an2.scores).c.reshape(-1))))
            pr.prove(z3.BoolVal(bool(okf)), f'_final_compute appends the final scores as last column iff traces were processed since the last point (pending={pending})',
                     lambda m, pending=pending: dict(kind='final', pending=pending, key=dict(kind='final')))
    explore(res, body, max_paths=64, timeout_ms=10000, exact=True)


def data_for(n, seed):
    r = rnp.random.RandomState(seed + 17)
    x = r.randint(0, 50, size=(n, 3)).astype('float64')
    d = rnp.array([[i % 2, (i // 2) % 2] for i in range(n)], dtype='uint8')
    return x, d


def scores_on_prefix(mk, x, d, c):
    ref, sf, model = mk()
    ref.update(traces=x[:c], data=model(sf(data=d[:c])))
    return ref.discriminant(ref.compute())


def analyse(columns, finals, prefix_scores, step, total, final_scores):
    """columns: list of arrays; finals: set of column indexes appended by _final_compute.  Returns list of problems."""
    probs = []
    pts = []
    for i, col in enumerate(columns):
        match = [c for c, sc in prefix_scores.items() if sc is not None and rnp.allclose(col, sc, rtol=1e-9, atol=1e-9, equal_nan=True)]
        if not match:
            probs.append(f'column {i} is not the score vector of any prefix')
            pts.append(None)
        else:
            prev = pts[-1] if pts and pts[-1] is not None else 0
            later = [c for c in match if c > prev]
            pts.append(min(later) if later else match[0])
    known = [p for p in pts if p is not None]
    if any(b <= a for a, b in zip(known, known[1:])):
        probs.append(f'points {pts} are not strictly increasing')
    regular = [p for i, p in enumerate(pts) if p is not None and i not in finals]
    if any(b - a < step for a, b in zip(regular, regular[1:])):
        probs.append(f'regular points {regular} are less than one step ({step}) apart')
    if columns and not rnp.allclose(columns[-1], final_scores, rtol=1e-9, atol=1e-9, equal_nan=True):
        probs.append('last column differs from the final scores')
    if columns and pts[-1] is not None and pts[-1] != total:
        probs.append(f'last point {pts[-1]} is not the number of processed traces {total}')
    return probs, pts


def job_run(job, res):
    cls, n = job['cls'], job['n']
    cont = C02._m['container']
    x, d = data_for(n, job['seed'])
    mk = lambda step=None: C02.make_analysis(cls, convergence_step=step, two_classes=bool(job.get('two')))  # noqa: E731
    CTX.reset()
    L.CLOCK.reset(mode='concrete')       # run level: concrete data, kernel choice by a deterministic clock
    import warnings
    warnings.simplefilter('ignore')
    prefix = {}
    with rnp.errstate(all='ignore'):
        for c in range(1, n + 1):
            try:
                prefix[c] = S._w(scores_on_prefix(mk, S.const(x), S.const(d), c)).typed()
            except Exception:
                prefix[c] = None
    for step, bs in itertools.product(job.get('steps') or (2, 3, 5, 7, 11, 20), job.get('batches') or (2, 3, 4, 16)):
        for runs in ([n], [n // 2, n - n // 2]):
            cont.set_batch_size(bs)
            an, sf, model = mk(step)
            base, _, _ = mk(None)
            finals = set()
            orig_final = an._final_compute

            def final_wrapper(an=an, orig_final=orig_final):
                before = 0 if an.convergence_traces is None else an.convergence_traces.shape[-1]
                orig_final()
                after = 0 if an.convergence_traces is None else an.convergence_traces.shape[-1]
                finals.update(range(before, after))
            an._final_compute = final_wrapper
            a = 0
            with rnp.errstate(all='ignore'):
                for r_ in runs:
                    ths = FakeTHS(S.const(x[a:a + r_]), {'data': S.const(d[a:a + r_])})
                    an.run(cont.Container(ths))
                    base.run(cont.Container(ths))
                    a += r_
            cont.set_batch_size(None)
            conv = S._w(an.convergence_traces).typed() if an.convergence_traces is not None else rnp.zeros((3, 0))
            cols = [conv[..., i] for i in range(conv.shape[-1])]
            probs, pts = analyse(cols, finals, prefix, step, n, S._w(an.scores).typed())
            if not rnp.allclose(S._w(an.results).typed(), S._w(base.results).typed(), equal_nan=True) or not rnp.allclose(S._w(an.scores).typed(), S._w(base.scores).typed(), equal_nan=True):
                probs.append('results / scores differ from the run without convergence_step')
            if not cols and n >= step:
                probs.append('no convergence column although the trace count reaches the step')
            res['obligations'] += 1
            res['nontrivial'] += 1
            if not probs:
                res['discharged'] += 1
                if len(res['samples']) < 3:
                    res['samples'].append(dict(obligation=f'{cls}: N={n}, convergence_step={step}, container batch {bs}, runs {runs}: columns at {pts} (remainder columns {sorted(finals)})', verdict='held'))
            else:
                res['failures'].append(dict(kind='run', cls=cls, n=n, step=step, bs=bs, runs=runs, seed=job['seed'], two=bool(job.get('two')), what=f'{cls}: N={n}, convergence_step={step}, batch {bs}, runs {runs}: {probs} (points {pts})',
                                            key=dict(kind='run', cls=cls, problem=probs[0][:40])))


def run_job(job):
    res = new_result(job['name'])
    {'step': job_step, 'run': job_run}[job['kind']](job, res)
    return res


def replay(w):
    import numpy as np
    import scared
    from scared import traces as tr
    if w['kind'] in ('step', 'final'):
        return dict(reproduced=False, detail='the step lemma works on a stubbed compute(); run-level witnesses carry the replay')
    cls, n, step, bs, runs = w['cls'], w['n'], w['step'], w['bs'], w['runs']
    x, d = data_for(n, w['seed'])

    def mk(st=None):
        @scared.attack_selection_function(guesses=np.arange(3, dtype='uint8'))
        def sf(data, guesses):
            out = np.empty((len(data), len(guesses), data.shape[1]), dtype='uint8')
            for i, g in enumerate(guesses):
                out[:, i, :] = np.bitwise_xor(data, g)
            return out
        model = scared.Monobit(0) if w.get('two') else scared.Value()
        kw = dict(selection_function=sf, model=model, discriminant=scared.maxabs, precision='float64', convergence_step=st)
        if cls.startswith('SNR'):
            kw['partitions'] = [0, 1] if w.get('two') else list(range(8))
        return getattr(scared, cls)(**kw), sf
    prefix = {}
    with np.errstate(all='ignore'):
        for c in range(1, n + 1):
            ref, sf = mk()
            try:
                ref.update(traces=x[:c], data=(scared.Monobit(0) if w.get('two') else scared.Value())(sf(data=d[:c])))
                prefix[c] = scared.maxabs(ref.compute())
            except Exception:
                prefix[c] = None
        scared.set_batch_size(bs)
        try:
            an, _ = mk(step)
            base, _ = mk(None)
            finals = set()
            orig = an._final_compute

            def fw():
                b = 0 if an.convergence_traces is None else an.convergence_traces.shape[-1]
                orig()
                a_ = 0 if an.convergence_traces is None else an.convergence_traces.shape[-1]
                finals.update(range(b, a_))
            an._final_compute = fw
            a = 0
            for r_ in runs:
                ths = tr.read_ths_from_ram(samples=x[a:a + r_], data=d[a:a + r_])
                an.run(scared.Container(ths))
                base.run(scared.Container(ths))
                a += r_
        finally:
            scared.set_batch_size(None)
    conv = an.convergence_traces if an.convergence_traces is not None else np.zeros((3, 0))
    cols = [conv[..., i] for i in range(conv.shape[-1])]
    probs, pts = analyse(cols, finals, prefix, step, n, an.scores)
    if not np.allclose(an.results, base.results, equal_nan=True):
        probs.append('results differ from the run without convergence_step')
    if not cols and n >= step:
        probs.append('no convergence column')
    return dict(reproduced=bool(probs), detail=f'{cls} N={n} step={step} batch={bs} runs={runs}: {probs} (points {pts})')
