"""C18 - preprocesses compute their definition row by row without integer wrap-around (DESIGN.md section 5, C18)."""
import itertools
import numpy as rnp
import z3

from vp import loader, symnp as S, elem as E
from vp.elem import CTX
from vp.run import new_result
from harness.common import explore, is_identity
from harness import statlib as L
from harness.C01 import equal_elem

ID = 'C18'
LEVEL = 'model_checking'
META = dict(
    functions=['scared.preprocesses._base:preprocess/Preprocess', 'scared.preprocesses.first_order:square/serialize_bit/fft_modulus/center/standardize/StandardizeOn/CenterOn/ToPower',
               'scared.preprocesses.high_order._base:_CombinationPointToPoint/_CombinationOfTwoFrames/_CombinationFrameOnDistance/_combination',
               'scared.preprocesses.high_order.standard:Product/Difference/AbsoluteDifference/CenteredProduct', 'scared.preprocesses.high_order.time_freq:Xcorr/WindowFFT/WindowFHT/MaxCorr/ConcatFFT/ConcatFHT'],
    bounds=dict(quick='batches of 2 symbolic traces of 5 samples; the full cross product of a 12-frame pool (Ellipsis, points 0, 3 and 4, slices with and without step or start, lists with disorder and duplicates, a range) as frame_1, frame_1 x frame_2, point-to-point pairs of equal length, and distance 1..6 (beyond the frame length): about 300 configurations x 4 combination preprocesses: '
                      'output columns == documented pair list in order, row r depends on row r only, outputs of earlier calls are not overwritten by later calls; '
                      'integer traces as bit-vectors of uint8/int8/uint16/int16/int32/uint32/int64 (all values): result == operation over the integers (no wrap); '
                      'first-order and time-frequency preprocesses against their formulas (exact DFT for frame lengths 2 and 4)',
                thorough='traces of 6 samples, 17-frame pool (also descending ranges, tuples), distance 1..7: about 600 configurations'),
    assumptions=['exact reals for float traces; bit-vectors with numpy wrap-around semantics for integer traces', 'DFT exact for lengths 1, 2, 4'],
    outside=['frame lengths other than 2 and 4 for the FFT based preprocesses', 'rounding at the promoted float type'],
    stubs=['numpy.fft: DFT definition for lengths 1, 2, 4'],
)
_m = {}


def prepare(tier, seed):
    mods = loader.load(['scared.preprocesses', 'scared.preprocesses.first_order', 'scared.preprocesses.high_order', 'scared.preprocesses.high_order.time_freq'])
    _m.update(pp=mods[0], fo=mods[1], ho=mods[2], tf=mods[3])


def _flen(f, L_):
    return len(_frame(f, L_))


def configs(tier, L_=5):
    """Every way of naming frames the documentation allows, crossed: one frame, frame x frame, point to point ('same'), and distance
    (1 .. beyond the frame length). quick uses a 12-frame pool on 5 samples, thorough a 17-frame pool on 6 samples."""
    pool = [..., 0, 3, slice(0, 3), slice(1, 5, 2), [4, 0, 2], [1, 1], 4, slice(2, 5), slice(None, 4), [3, 1], range(1, 4)]
    if tier != 'quick':
        pool += [L_ - 1, slice(0, L_, 3), [L_ - 1, 0], range(L_ - 1, 0, -2), (2, 3)]
    out = [dict(frame_1=f) for f in pool]
    out += [dict(frame_1=f, frame_2=g) for f in pool for g in pool]
    out += [dict(frame_1=f, frame_2=g, mode='same') for f in pool for g in pool if f is not ... and g is not ... and _flen(f, L_) == _flen(g, L_)]
    out += [dict(frame_1=f, distance=d) for f in pool for d in range(1, L_ + 2)]
    return out


def _frame(f, L_):
    if f is None or f is ...:
        return list(range(L_))
    if isinstance(f, slice):
        return list(range(L_))[f]
    if isinstance(f, int):
        return [f]
    return list(f)


def pair_list(cfg, L_):
    f1 = _frame(cfg.get('frame_1', ...), L_)
    if cfg.get('distance') is not None:
        d = cfg['distance']
        return [(f1[i], f1[j]) for i in range(len(f1)) for j in range(i, min(i + d + 1, len(f1)))]
    if cfg.get('mode') == 'same':
        f2 = _frame(cfg['frame_2'], L_)
        return list(zip(f1, f2))
    if cfg.get('frame_2') is None:
        return [(f1[i], f1[j]) for i in range(len(f1)) for j in range(i, len(f1))]
    f2 = _frame(cfg['frame_2'], L_)
    return [(a, b) for a in f1 for b in f2]


def jobs(tier, seed):
    js = [dict(name=f'pairs-{op}-{part}', kind='pairs', op=op, part=part, tier=tier) for op in ('Product', 'Difference', 'AbsoluteDifference', 'CenteredProduct') for part in range(3)]
    js += [dict(name=f'nowrap-{dt}', kind='nowrap', dt=dt) for dt in ('uint8', 'int8', 'uint16', 'int16', 'int32', 'uint32', 'int64')]
    js += [dict(name='first-order', kind='first'), dict(name='time-frequency', kind='tf')]
    return js


def syms_of(t):
    out, seen, stack = set(), set(), [t]
    while stack:
        e = stack.pop()
        if e.get_id() in seen:
            continue
        seen.add(e.get_id())
        if z3.is_const(e) and e.decl().kind() == z3.Z3_OP_UNINTERPRETED:
            out.add(str(e))
        stack.extend(e.children())
    return out


def job_pairs(job, res):
    op = job['op']
    ho = _m['ho']
    Lr = 5 if job.get('tier', 'quick') == 'quick' else 6
    CONFIGS = configs(job.get('tier', 'quick'), Lr)[job.get('part', 0)::3]

    def body(ex, pr):
        x = S.sym_real('x', (2, Lr), 'float64')
        x2 = S.sym_real('z', (2, Lr), 'float64')
        mean = S.sym_real('mu', (Lr,), 'float64')
        for cfg in CONFIGS:
            if res['failures']:
                break
            kw = dict(cfg)
            if op == 'CenteredProduct':
                kw['mean'] = mean
            pp = getattr(ho, op)(**kw)
            out = pp(x)
            snap = list(out.c.reshape(-1))
            pairs = pair_list(cfg, Lr)

            def wit(what):
                return lambda m: dict(kind='pairs', op=op, cfg={k: (str(v)) for k, v in cfg.items()}, what_failed=what, x=L.model_values(m, x), x2=L.model_values(m, x2),
                                      mean=L.model_values(m, mean) if op == 'CenteredProduct' else None, key=dict(kind='pairs', op=op, what=what))
            ok = tuple(out.shape) == (2, len(pairs))
            bad = []
            if ok:
                for r in range(2):
                    for c, (i, j) in enumerate(pairs):
                        a, b = E.R(x.c[r, i]), E.R(x.c[r, j])
                        if op == 'CenteredProduct':
                            a, b = a - E.R(mean.c[i]), b - E.R(mean.c[j])
                        exp = a * b if 'Product' in op else (a - b if op == 'Difference' else z3.If(a - b >= 0, a - b, b - a))
                        if not equal_elem(out.c[r, c], exp):
                            bad.append((r, c))
            pr.prove(z3.BoolVal(ok and not bad), f'{op}({cfg}): output columns == {"(a - mean)(b - mean)" if op == "CenteredProduct" else op} over the documented pairs {pairs} in that order (wrong: {bad[:4]})', wit('pairs'), sample=(cfg is CONFIGS[0]))
            if ok and not bad:
                leak = [r for r in range(2) if any(not all(s.startswith(f'x_{r}_') or s.startswith('mu_') for s in syms_of(E.R(t))) for t in out.c[r] if E.is_sym(t))]
                pr.prove(z3.BoolVal(not leak), f'{op}({cfg}): row r of the output depends on row r of the input only', wit('row-independence'), sample=False)
                pp(x2)                                 # a later call of the same object on another batch of the same shape
                still = all((a is b) or (E.is_sym(a) and E.is_sym(b) and a.eq(b)) for a, b in zip(snap, out.c.reshape(-1)))
                pr.prove(z3.BoolVal(bool(still)), f'{op}({cfg}): the output of an earlier call is not modified by a later call of the same preprocess', wit('history'), sample=False)
    explore(res, body, max_paths=8, timeout_ms=20000, exact=True)


def job_nowrap(job, res):
    dt = rnp.dtype(job['dt'])
    ho, fo = _m['ho'], _m['fo']
    signed = dt.kind == 'i'
    w = dt.itemsize * 8
    W = 4 * w           # wide enough for cubes and products of differences

    def ext(t, sgn=signed):
        return z3.SignExt(W - t.size(), t) if sgn else z3.ZeroExt(W - t.size(), t)

    def val(t):
        return z3.BV2Int(t, is_signed=signed)

    def body(ex, pr):
        x = S.sym_bv('x', (1, 3), dt)
        mean_int = S.sym_bv('mi', (3,), dt)
        xa = S.terms(x)
        ma = S.terms(mean_int)
        # the operation over the integers, once on wide bit-vectors (for results kept in an integer dtype) and once over the reals (for promoted results)
        ops = {
            'Product(frame_1=slice(0,3))': (lambda: ho.Product(frame_1=slice(0, 3))(x), lambda a, b, c, m: [a * a, a * b, a * c, b * b, b * c, c * c]),
            'Difference(frame_1=[0,1], frame_2=[2])': (lambda: ho.Difference(frame_1=[0, 1], frame_2=[2])(x), lambda a, b, c, m: [a - c, b - c]),
            'AbsoluteDifference(frame_1=0, frame_2=2, mode=same)': (lambda: ho.AbsoluteDifference(frame_1=0, frame_2=2, mode='same')(x), lambda a, b, c, m: ['abs', a - c]),
            'square': (lambda: fo.square(x), lambda a, b, c, m: [a * a, b * b, c * c]),
            'ToPower(3)': (lambda: fo.ToPower(3)(x), lambda a, b, c, m: [a * a * a, b * b * b, c * c * c]),
            'CenterOn(mean=integer array of the trace dtype)': (lambda: fo.CenterOn(mean=mean_int)(x), lambda a, b, c, m: [a - m[0], b - m[1], c - m[2]]),
            'StandardizeOn(mean=integer array of the trace dtype, std=2)': (lambda: fo.StandardizeOn(mean=mean_int, std=2)(x), lambda a, b, c, m: [(a - m[0]) / 2, (b - m[1]) / 2, (c - m[2]) / 2]),
            'CenteredProduct(mean=integer array, frame_1=[0,1])': (lambda: ho.CenteredProduct(frame_1=[0, 1], mean=mean_int)(x),
                                                                   lambda a, b, c, m: [(a - m[0]) * (a - m[0]), (a - m[0]) * (b - m[1]), (b - m[1]) * (b - m[1])]),
        }
        for name, (call, formula) in ops.items():
            if w >= 32 and (name.startswith('CenteredProduct') or name.startswith('ToPower')):
                continue          # 128/256-bit multiplications: left to the 8/16-bit dtypes (the 32/64-bit dtypes are a recorded finding anyway)
            try:
                out = call()
            except OverflowError as e_:
                res['notes'].append(f'{name} on {dt}: refused with OverflowError ({e_})')
                continue
            got = list(S._w(out).c.reshape(-1))
            odt = S._w(out).dtype
            wide = formula(*[ext(t) for t in xa], [ext(t) for t in ma])
            real = formula(*[z3.ToReal(val(t)) for t in xa], [z3.ToReal(val(t)) for t in ma])
            if wide and isinstance(wide[0], str):
                wide = [z3.If(wide[1] >= 0, wide[1], -wide[1])]
                real = [z3.If(real[1] >= 0, real[1], -real[1])]
            ok = len(got) == len(wide)
            goals, idents = [], True
            if ok:
                for g, ew, er in zip(got, wide, real):
                    if E.is_sym(g) and z3.is_bv(g):
                        goals.append(ext(g, odt.kind == 'i') == ew)          # pure bit-vector obligation
                    elif E.is_sym(g):
                        idents = idents and is_identity(E.R(E.to_real(g, None)) == er)
                    else:
                        goals.append(z3.BoolVal(False))
            pr.prove(z3.And(z3.BoolVal(bool(idents)), *goals) if ok else z3.BoolVal(False),
                     f'{name} on {dt} traces (all values): result == the operation over the integers, no wrap-around (output dtype {odt})',
                     lambda m, name=name: dict(kind='nowrap', dt=str(dt), op=name, x=[int(m.eval(val(t), model_completion=True).as_long()) for t in xa],
                                               mean=[int(m.eval(val(t), model_completion=True).as_long()) for t in ma], key=dict(kind='nowrap', dt=str(dt), op=name)))
    explore(res, body, max_paths=8, timeout_ms=30000, exact=True)


def dft(xs, k, inverse=False):
    """(re, im) of sum_j x_j exp(-2 pi i k j / n) for n in (1, 2, 4), xs real z3 terms or (re, im) pairs."""
    n = len(xs)
    tw = {1: [(1, 0)], 2: [(1, 0), (-1, 0)], 4: [(1, 0), (0, -1), (-1, 0), (0, 1)]}[n]
    re, im = 0, 0
    for j, v in enumerate(xs):
        vr, vi = v if isinstance(v, tuple) else (v, 0)
        c, s_ = tw[(k * j * (-1 if inverse else 1)) % n]
        re = re + vr * c - vi * s_
        im = im + vr * s_ + vi * c
    return re, im


def job_first(job, res):
    fo = _m['fo']

    def body(ex, pr):
        x = S.sym_real('x', (2, 4), 'float64')
        X = [[E.R(x.c[r, j]) for j in range(4)] for r in range(2)]

        def chk(name, out, exp_rows, what='value'):
            got = S._w(out)
            flat = [e for row in exp_rows for e in row]
            ok = tuple(got.shape) == (2, len(exp_rows[0])) and all(equal_elem(g, e) for g, e in zip(got.c.reshape(-1), flat))
            pr.prove(z3.BoolVal(bool(ok)), f'{name} == its formula on a symbolic batch of 2 traces', lambda m: dict(kind='first', name=name, x=L.model_values(m, x), key=dict(kind='first', name=name)))
        chk('square', fo.square(x), [[v * v for v in row] for row in X])
        chk('ToPower(3)', fo.ToPower(3)(x), [[v * v * v for v in row] for row in X])
        mu = [(X[0][j] + X[1][j]) / 2 for j in range(4)]
        chk('center (documented batch mean)', fo.center(x), [[row[j] - mu[j] for j in range(4)] for row in X])
        m_ = S.sym_real('m', (4,), 'float64')
        s_ = S.sym_real('sd', (4,), 'float64')
        chk('CenterOn(mean)', fo.CenterOn(mean=m_)(x), [[row[j] - E.R(m_.c[j]) for j in range(4)] for row in X])
        mark = len(CTX.side)
        chk('StandardizeOn(mean, std)', fo.StandardizeOn(mean=m_, std=s_)(x), [[(row[j] - E.R(m_.c[j])) / E.R(s_.c[j]) for j in range(4)] for row in X])
        del CTX.side[mark:]
        # standardize: (x - mean) / population std of the batch; compared through its square (std is a square root)
        out = S._w(fo.standardize(x))
        okstd = tuple(out.shape) == (2, 4)
        if okstd:
            for r in range(2):
                for j in range(4):
                    var = ((X[0][j] - mu[j]) * (X[0][j] - mu[j]) + (X[1][j] - mu[j]) * (X[1][j] - mu[j])) / 2
                    num, den = L.ratform(E.R(out.c[r, j]))
                    den2 = L.eliminate_sqrt_square(den)
                    okstd = okstd and den2 is not None and is_identity(num * num * var == (X[r][j] - mu[j]) * (X[r][j] - mu[j]) * den2)
        pr.prove(z3.BoolVal(bool(okstd)), 'standardize == (x - batch mean) / batch standard deviation (squared form)', lambda m: dict(kind='first', name='standardize', x=L.model_values(m, x), key=dict(kind='first', name='standardize')))
        del CTX.side[mark:]
        b = S.sym_bv('b', (2, 2), 'uint8')
        bits = fo.serialize_bit(b)
        expb = [[z3.ZeroExt(7, z3.Extract(7 - i, 7 - i, b.c[r, j])) for j in range(2) for i in range(8)] for r in range(2)]
        okb = tuple(bits.shape) == (2, 16)
        if okb:
            sol = z3.Solver()
            sol.add(z3.Or(*[g != e for g, e in zip(bits.c.reshape(-1), [e for row in expb for e in row])]))
            okb = sol.check() == z3.unsat
        pr.prove(z3.BoolVal(bool(okb)), 'serialize_bit == the 8 bits of every byte, most significant first', lambda m: dict(kind='first', name='serialize_bit', x=None, key=dict(kind='first', name='serialize_bit')))
        # fft_modulus: |DFT| of the first ceil(L/2) bins
        out = S._w(fo.fft_modulus(x))
        okf = tuple(out.shape) == (2, 2)
        if okf:
            for r in range(2):
                for k in range(2):
                    re, im = dft(X[r], k)
                    g = out.c[r, k]
                    sq = None
                    for sy, rad in CTX.sqrts:
                        if E.is_sym(g) and g.eq(sy):
                            sq = rad
                    okf = okf and sq is not None and is_identity(sq == re * re + im * im)
        pr.prove(z3.BoolVal(bool(okf)), 'fft_modulus == modulus of the first ceil(L/2) DFT bins (L = 4)', lambda m: dict(kind='first', name='fft_modulus', x=L.model_values(m, x), key=dict(kind='first', name='fft_modulus')))
    explore(res, body, max_paths=16, timeout_ms=20000, exact=True)


def job_tf(job, res):
    tf = _m['tf']

    def body(ex, pr):
        x = S.sym_real('x', (2, 4), 'float64')
        X = [[E.R(x.c[r, j]) for j in range(4)] for r in range(2)]

        def sq_of(g):
            for sy, rad in CTX.sqrts:
                if E.is_sym(g) and g.eq(sy):
                    return rad
            return None

        def run_tf(name, thunk):
            """Calls the preprocess; a transform length the shim has no exact DFT for means the code transformed something else than the
            documented frames (lengths 2 and 4 here): reported as a failed obligation and decided by the replay on the real code."""
            try:
                return thunk()
            except E.ShimUnsupported as e_:
                if 'exact DFT' not in str(e_):
                    raise
                pr.prove(z3.BoolVal(False), f'{name}({tagc}): the transform is taken over the documented frames (the code asked for another length: {e_})',
                         lambda m, tagc=tagc: dict(kind='tf', name=name, frames=tagc, x=L.model_values(m, x), key=dict(kind='tf', name=name)), sample=False)
                return None

        def chk(name, out, exp_rows, squared=False):
            if out is None:
                return
            got = S._w(out)
            flat = [e for row in exp_rows for e in row]
            ok = tuple(got.shape) == (2, len(exp_rows[0]))
            if ok:
                for g, e_ in zip(got.c.reshape(-1), flat):
                    if isinstance(e_, tuple):          # ('abs2', value): g must be the square root of value
                        rad = sq_of(g)
                        ok = ok and ((rad is not None and is_identity(rad == e_[1])) or (not E.is_sym(g) and is_identity(E.R(g) * E.R(g) == e_[1])))
                    else:
                        ok = ok and equal_elem(g, e_)
            pr.prove(z3.BoolVal(bool(ok)), f'{name}({tagc}) == its formula (exact DFT, frames of length 2)', lambda m, tagc=tagc: dict(kind='tf', name=name, frames=tagc, x=L.model_values(m, x), key=dict(kind='tf', name=name)))
        for (fr1, fr2, ca, cb, tagc) in ((slice(0, 2), slice(2, 4), (0, 1), (2, 3), 'frame_1=0:2, frame_2=2:4'),
                                         (slice(0, 2), None, (0, 1), (0, 1), 'frame_1=0:2 only (used for both)'),
                                         (None, slice(2, 4), (2, 3), (2, 3), 'frame_2=2:4 only (used for both)')):
            f1, f2 = fr1, fr2
            A = [[row[ca[0]], row[ca[1]]] for row in X]
            B = [[row[cb[0]], row[cb[1]]] for row in X]
            XR = [a + b for a, b in zip(A, B)]          # the two frames side by side

            def rfft2(v):
                return [dft(v, 0), dft(v, 1)]
            # Xcorr: irfft(conj(rfft(a)) * rfft(b))
            exp = []
            for a, b in zip(A, B):
                fa, fb = rfft2(a), rfft2(b)
                prod = [(fa[k][0] * fb[k][0] + fa[k][1] * fb[k][1], fa[k][0] * fb[k][1] - fa[k][1] * fb[k][0]) for k in range(2)]
                exp.append([dft(prod, j, inverse=True)[0] / 2 for j in range(2)])
            chk('Xcorr', run_tf('Xcorr', lambda: tf.Xcorr(frame_1=f1, frame_2=f2)(x)), exp)
            exp = []
            for a, b in zip(A, B):
                fa, fb = rfft2(a), rfft2(b)
                exp.append([('abs2', (fa[k][0] * fb[k][0] + fa[k][1] * fb[k][1]) ** 2 + (fa[k][0] * fb[k][1] - fa[k][1] * fb[k][0]) ** 2) for k in range(2)])
            chk('WindowFFT', run_tf('WindowFFT', lambda: tf.WindowFFT(frame_1=f1, frame_2=f2)(x)), exp)
            exp = []
            for a, b in zip(A, B):
                fa, fb = rfft2(a), rfft2(b)
                exp.append([(fa[k][0] - fa[k][1]) * (fb[k][0] - fb[k][1]) for k in range(2)])
            chk('WindowFHT', run_tf('WindowFHT', lambda: tf.WindowFHT(frame_1=f1, frame_2=f2)(x)), exp)
            exp_mc, exp_cf, exp_ch = [], [], []
            for row in XR:
                f = [dft(row, k) for k in range(3)]
                exp_mc.append([f[k][0] for k in range(3)] + [f[k][1] for k in range(3)] + [('abs2', f[k][0] ** 2 + f[k][1] ** 2) for k in range(3)])
                exp_cf.append([f[k][0] ** 2 + f[k][1] ** 2 for k in range(3)])
                exp_ch.append([(f[k][0] - f[k][1]) ** 2 for k in range(3)])
            chk('MaxCorr', run_tf('MaxCorr', lambda: tf.MaxCorr(frame_1=f1, frame_2=f2)(x)), exp_mc)
            out_cf_ = run_tf('ConcatFFT', lambda: tf.ConcatFFT(frame_1=f1, frame_2=f2)(x))
            if out_cf_ is None:
                continue
            out_cf = S._w(out_cf_)
            # ConcatFFT squares a modulus: sqrt symbols squared
            okc = tuple(out_cf.shape) == (2, 3)
            if okc:
                for g, e_ in zip(out_cf.c.reshape(-1), [e for row in exp_cf for e in row]):
                    t = E.R(g)
                    for sy, rad in CTX.sqrts:
                        t = z3.substitute(t, (sy * sy, rad))
                    okc = okc and is_identity(t == e_)
            pr.prove(z3.BoolVal(bool(okc)), f'ConcatFFT({tagc}) == squared modulus of the DFT of the concatenated frames', lambda m, tagc=tagc: dict(kind='tf', name='ConcatFFT', frames=tagc, x=L.model_values(m, x), key=dict(kind='tf', name='ConcatFFT')))
            chk('ConcatFHT', run_tf('ConcatFHT', lambda: tf.ConcatFHT(frame_1=f1, frame_2=f2)(x)), exp_ch)
    explore(res, body, max_paths=16, timeout_ms=20000, exact=True)


def run_job(job):
    res = new_result(job['name'])
    {'pairs': job_pairs, 'nowrap': job_nowrap, 'first': job_first, 'tf': job_tf}[job['kind']](job, res)
    return res


def replay(w):
    import random
    import numpy as np
    import scared
    from scared import preprocesses as P
    rnd = random.Random(12)
    if w['kind'] == 'nowrap':
        dt = np.dtype(w['dt'])
        info = np.iinfo(dt)
        cand = [w['x']] + [[info.max, info.min, info.max], [info.max // 2 + 7, info.max, 3], [int(min(70000, info.max)), int(min(70000, info.max)), info.min]]
        means = [w.get('mean') or [0, 0, 0], [info.max, info.max, info.max], [info.max // 2 + 1] * 3]
        for xv in cand:
            for mv in means:
                x = np.array([xv], dtype=dt)
                mean = np.array(mv, dtype=dt)
                a, b, c = [int(v) for v in x[0]]
                m0, m1, m2 = [int(v) for v in mean]
                name = w['op']
                try:
                    if name.startswith('Product'):
                        out, exp = P.high_order.Product(frame_1=slice(0, 3))(x), [a * a, a * b, a * c, b * b, b * c, c * c]
                    elif name.startswith('Difference'):
                        out, exp = P.high_order.Difference(frame_1=[0, 1], frame_2=[2])(x), [a - c, b - c]
                    elif name.startswith('AbsoluteDifference'):
                        out, exp = P.high_order.AbsoluteDifference(frame_1=0, frame_2=2, mode='same')(x), [abs(a - c)]
                    elif name == 'square':
                        out, exp = P.square(x), [a * a, b * b, c * c]
                    elif name.startswith('ToPower'):
                        out, exp = P.ToPower(3)(x), [a ** 3, b ** 3, c ** 3]
                    elif name.startswith('CenterOn'):
                        out, exp = P.CenterOn(mean=mean)(x), [a - m0, b - m1, c - m2]
                    elif name.startswith('StandardizeOn'):
                        out, exp = P.StandardizeOn(mean=mean, std=2)(x), [(a - m0) / 2, (b - m1) / 2, (c - m2) / 2]
                    else:
                        out, exp = P.high_order.CenteredProduct(frame_1=[0, 1], mean=mean)(x), [(a - m0) ** 2, (a - m0) * (b - m1), (b - m1) ** 2]
                except Exception as e_:
                    continue
                got = [float(v) for v in np.array(out).reshape(-1)]
                if any(abs(g - e) > 1e-6 * max(1.0, abs(e)) for g, e in zip(got, exp)):
                    return dict(reproduced=True, detail=f'{name} on {dt} traces {xv} (mean {mv}): {got} but the operation over the integers gives {exp} (output dtype {np.array(out).dtype})',
                                dtype=str(dt))
        return dict(reproduced=False, detail='no wrap-around on the model and boundary values')
    if w['kind'] == 'pairs':
        op = w['op']
        cfg = {k: eval(v) for k, v in w['cfg'].items()}
        x0, x2 = L.to_numpy(w['x']), L.to_numpy(w['x2'])
        Lw = x0.shape[1]
        tries = [(x0, x2)] + [(np.array([rnd.uniform(-5, 5) for _ in range(2 * Lw)]).reshape(2, Lw), np.array([rnd.uniform(-5, 5) for _ in range(2 * Lw)]).reshape(2, Lw)) for _ in range(4)]
        mean = L.to_numpy(w['mean']) if w.get('mean') else None
        for X, X2 in tries:
            kw = dict(cfg)
            if op == 'CenteredProduct':
                kw['mean'] = mean if mean is not None else np.arange(float(Lw))
            pp = getattr(P.high_order, op)(**kw)
            out = pp(X)                      # the very array handed to the caller
            keep = np.array(out, copy=True)
            pp(X2)
            pairs = pair_list(cfg, Lw)
            mu = kw.get('mean', np.zeros(Lw))
            exp = np.array([[((X[r, i] - mu[i]) * (X[r, j] - mu[j]) if op == 'CenteredProduct' else X[r, i] * X[r, j] if op == 'Product' else X[r, i] - X[r, j] if op == 'Difference' else abs(X[r, i] - X[r, j]))
                             for (i, j) in pairs] for r in range(2)])
            if keep.shape != exp.shape or not np.allclose(keep, exp, rtol=1e-6, atol=1e-6):
                return dict(reproduced=True, detail=f'{op}({w["cfg"]}) on {X.tolist()}: {keep.tolist()} expected {exp.tolist()} (pairs {pairs})')
            if not np.array_equal(out, keep):
                return dict(reproduced=True, detail=f'{op}({w["cfg"]}): the array returned by the first call was overwritten by the second call')
        return dict(reproduced=False, detail='agrees')
    # first-order and time-frequency preprocesses: numpy references on the model values and on seeded inputs
    name = w['name']
    base = L.to_numpy(w['x']).astype('float64') if w.get('x') else None
    tries = ([base] if base is not None else []) + [np.array([rnd.uniform(-5, 5) for _ in range(8)]).reshape(2, 4) for _ in range(5)]
    for X in tries:
        if w['kind'] == 'first':
            mean, std = np.array([0.5, -1.0, 2.0, 3.0]), np.array([2.0, 4.0, 0.5, 1.0])
            with np.errstate(all='ignore'):
                if name == 'serialize_bit':
                    b = np.array([[rnd.randrange(256) for _ in range(2)] for _ in range(2)], dtype='uint8')
                    got, exp = P.serialize_bit(b), np.array([[(int(v) >> (7 - i)) & 1 for v in row for i in range(8)] for row in b])
                else:
                    got, exp = {
                        'square': lambda: (P.square(X), X * X), 'ToPower(3)': lambda: (P.ToPower(3)(X), X ** 3),
                        'center (documented batch mean)': lambda: (P.center(X), X - X.mean(0)), 'CenterOn(mean)': lambda: (P.CenterOn(mean=mean)(X), X - mean),
                        'StandardizeOn(mean, std)': lambda: (P.StandardizeOn(mean=mean, std=std)(X), (X - mean) / std), 'standardize': lambda: (P.standardize(X), (X - X.mean(0)) / X.std(0)),
                        'fft_modulus': lambda: (P.fft_modulus(X), np.abs(np.fft.fft(X))[:, :int(np.ceil(X.shape[1] / 2))])}[name]()
        else:
            frames = w.get('frames', 'frame_1=0:2, frame_2=2:4')
            f1 = None if frames.startswith('frame_2') else slice(0, 2)
            f2 = None if 'only' in frames and frames.startswith('frame_1') else slice(2, 4)
            ca = slice(2, 4) if f1 is None else slice(0, 2)
            cb = ca if (f1 is None or f2 is None) else slice(2, 4)
            A, B = X[:, ca], X[:, cb]
            fa, fb = np.fft.rfft(A), np.fft.rfft(B)
            cat = np.fft.rfft(np.concatenate([A, B], axis=1))
            fht = lambda f: f.real - f.imag  # noqa: E731
            got = np.array(getattr(P.high_order, name)(frame_1=f1, frame_2=f2)(X))
            exp = {'Xcorr': lambda: np.fft.irfft(np.conj(fa) * fb, n=2), 'WindowFFT': lambda: np.abs(np.conj(fa) * fb), 'WindowFHT': lambda: fht(fa) * fht(fb),
                   'MaxCorr': lambda: np.concatenate([cat.real, cat.imag, np.abs(cat)], axis=1), 'ConcatFFT': lambda: np.abs(cat) ** 2, 'ConcatFHT': lambda: fht(cat) ** 2}[name]()
        got = np.array(got, dtype='float64')
        if got.shape != np.array(exp).shape or not np.allclose(got, exp, rtol=1e-6, atol=1e-6, equal_nan=True):
            return dict(reproduced=True, detail=f'{name}{"(" + w["frames"] + ")" if w.get("frames") else ""} on {X.tolist()}: {got.tolist()} (shape {got.shape}) but the formula gives {np.array(exp).tolist()}')
    return dict(reproduced=False, detail='agrees with the numpy reference on the model values and seeded inputs')
