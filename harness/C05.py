"""C05 - AES encrypt / decrypt and every stop point against FIPS-197 (see DESIGN.md section 5, C05)."""
import itertools
import numpy as rnp
import z3

from vp import loader, symnp as S, elem as E, symx
from vp.elem import CTX
from vp.run import new_result
from ref import fips197 as F
from harness.common import Prover, any_differs, model_bytes, frame_unchanged, explore, seeded_refute

ID = 'C05'
LEVEL = 'model_checking'
TABLES = ['SBOX', 'INV_SBOX', 'XTIME_2', 'XTIME_3', 'XTIME_9', 'XTIME_11', 'XTIME_13', 'XTIME_14']
META = dict(
    functions=['scared.aes.base:' + f for f in (
        'encrypt', 'decrypt', '_parametric_cipher', '_prepare_keys', '_prepare_rounds', 'key_schedule', 'key_expansion', '_expand_forward',
        'sub_bytes', 'inv_sub_bytes', 'shift_rows', 'inv_shift_rows', 'mix_column', 'mix_columns', 'inv_mix_column', 'inv_mix_columns',
        'add_round_key', 'SBOX', 'INV_SBOX', 'XTIME_*', 'RCON', 'SHIFT_ROWS', 'INV_SHIFT_ROWS')] + ['scared._utils:_is_bytes_array'],
    bounds=dict(
        quick='all keys (16/24/32 symbolic bytes) x all 16-byte blocks; every at_round in [0,Nr] x after_step 0..3 x {encrypt,decrypt}; '
              'shapes (16,)x(K,), (2,16)x(K,), (16,)x(2,K), (2,16)x(2,K); state dtype uint8 (all shapes) and int16/int64 with byte values (shape (16,)x(K,))',
        thorough='as quick, plus int16/int64 states on every shape and batch size 3'),
    assumptions=['table reads are abstracted by function symbols in the data-flow layer; the table lemmas (all 256 indexes, one query each) tie them to FIPS-197',
                 'non-uint8 inputs hold byte values (0..255), as the statement requires'],
    outside=['batches of more than 3 blocks/keys (the code is size-uniform in the batch dimension)', 'at_round = Nr+1 (accepted by the argument check, outside the property range)'],
    stubs=[],
)
_aes = None


_real_aes = None


def prepare(tier, seed):
    global _aes, _real_aes
    _aes, = loader.load(['scared.aes.base'])
    try:
        _real_aes, = loader.load_real(['scared.aes.base'])
    except Exception:       # noqa: B902
        _real_aes = None


def validate_translation(res, fn_name, st, ky, out_terms, kwargs, table_axioms):
    """Translator validation: the symbolic result evaluated on seeded inputs must equal what the real function returns (real numpy)."""
    import random
    if _real_aes is None:
        return
    from harness.common import EvalModel
    r = random.Random(len(out_terms) * 7 + ky.size)
    pairs = []
    conc = {}
    for arr, nm in ((st, 's'), (ky, 'k')):
        vals = []
        for t in S.terms(arr):
            v = r.randrange(128 if arr.dtype == rnp.int8 else 256)
            vals.append(v)
            pairs.append((t, z3.BitVecVal(v, t.size())))
        conc[nm] = rnp.array(vals, dtype=arr.dtype).reshape(arr.shape)
    m = EvalModel(pairs, table_axioms)
    got = [m.eval(t).as_long() if E.is_sym(t) else int(t) for t in out_terms]
    real = getattr(_real_aes, fn_name)(conc['s'], conc['k'], **kwargs)
    if got == [int(v) for v in rnp.asarray(real).reshape(-1)]:
        res['validated'] += 1
    else:
        res['unknown'].append(f'translator validation failed for aes.{fn_name}{kwargs}: symbolic model {got} vs real code {rnp.asarray(real).reshape(-1).tolist()}')


def _register():
    S.unregister_tables()
    return {t: S.register_table(getattr(_aes, t), t) for t in TABLES}


def uf_ref(fns):
    return F.AesRef(lambda b: fns['SBOX'](b), lambda b: fns['INV_SBOX'](b),
                    {k: (lambda a, k=k: fns[f'XTIME_{k}'](a)) for k in (2, 3, 9, 11, 13, 14)})


def jobs(tier, seed):
    js = [dict(name='L1-tables', kind='tables'), dict(name='L1-primitives', kind='prims')]
    shapes = ['11', 'N1', '1N', 'NN']
    for klen in (16, 24, 32):
        for mode in ('encrypt', 'decrypt'):
            for sh in shapes:
                dts = ['uint8']
                if tier == 'thorough' or sh == '11':
                    dts += ['int8', 'int16', 'int64']          # int8 holds the byte values 0..127
                for dt in dts:
                    js.append(dict(name=f'L2-{mode}-k{klen}-{sh}-{dt}', kind='flow', klen=klen, mode=mode, shape=sh, dtype=dt, n=2))
            if tier == 'thorough':
                js.append(dict(name=f'L2-{mode}-k{klen}-NN-uint8-n3', kind='flow', klen=klen, mode=mode, shape='NN', dtype='uint8', n=3))
        js.append(dict(name=f'history-k{klen}', kind='history', klen=klen))
    return js


# ---------------------------------------------------------------------------------------------


def _table_array(name):
    t = getattr(_aes, name).typed()
    return S._z3_table(t, z3.BitVecSort(8)), t


def job_tables(job, res):
    pr = Prover(res)
    x = z3.BitVec('x', 8)
    arrs = {n: _table_array(n) for n in TABLES}

    def wit(table):
        def f(m):
            i = m.eval(x, model_completion=True).as_long()
            return dict(kind='table', table=table, index=i, key=dict(kind='table', table=table))
        return f
    for n in TABLES:
        t = arrs[n][1]
        pr.prove(z3.BoolVal(t.shape == (256,) and t.dtype == rnp.uint8), f'{n} has 256 uint8 entries', lambda m, n=n: dict(kind='table', table=n, index=-1))
    # S(x) = affine(x^-1)  <=>  y := affine^-1(S(x)) is the multiplicative inverse of x (0 for 0); affine^-1 is itself proved to invert affine
    sx = z3.Select(arrs['SBOX'][0], x)
    y = z3.RotateLeft(sx, 1) ^ z3.RotateLeft(sx, 3) ^ z3.RotateLeft(sx, 6) ^ z3.BitVecVal(5, 8)
    pr.prove(F.spec_affine(z3.RotateLeft(x, 1) ^ z3.RotateLeft(x, 3) ^ z3.RotateLeft(x, 6) ^ z3.BitVecVal(5, 8)) == x, 'forall s: affine(affine^-1(s)) == s')
    pr.prove(z3.And(F.spec_gmul(x, y) == z3.If(x == 0, z3.BitVecVal(0, 8), z3.BitVecVal(1, 8)), z3.Implies(x == 0, y == 0)),
             'forall x: affine^-1(SBOX[x]) * x == 1 in GF(2^8) (0 -> 0), i.e. SBOX[x] == affine(x^-1)', wit('SBOX'))
    pr.prove(z3.Select(arrs['INV_SBOX'][0], z3.Select(arrs['SBOX'][0], x)) == x, 'forall x: INV_SBOX[SBOX[x]] == x', wit('INV_SBOX'))
    pr.prove(z3.Select(arrs['SBOX'][0], z3.Select(arrs['INV_SBOX'][0], x)) == x, 'forall x: SBOX[INV_SBOX[x]] == x', wit('INV_SBOX'))
    for k in (2, 3, 9, 11, 13, 14):
        pr.prove(z3.Select(arrs[f'XTIME_{k}'][0], x) == F.spec_mul(k, x), f'forall x: XTIME_{k}[x] == {k}.x in GF(2^8)', wit(f'XTIME_{k}'))
    rcon = _aes.RCON.typed()
    i = z3.BitVec('i', 8)
    ra = z3.K(z3.BitVecSort(8), z3.BitVecVal(0, 32))
    sa = z3.K(z3.BitVecSort(8), z3.BitVecVal(0, 32))
    for j in range(10):
        v = rcon[j] if j < len(rcon) else [0, 0, 0, 0]
        ra = z3.Store(ra, z3.BitVecVal(j, 8), z3.BitVecVal(int.from_bytes(bytes(int(b) for b in v), 'big'), 32))
        sa = z3.Store(sa, z3.BitVecVal(j, 8), z3.BitVecVal(F.spec_rcon(j + 1) << 24, 32))
    pr.prove(z3.Implies(z3.ULT(i, 10), z3.Select(ra, i) == z3.Select(sa, i)), 'forall i < 10: RCON[i] == (x^i, 0, 0, 0)',
             lambda m: dict(kind='table', table='RCON', index=m.eval(i, model_completion=True).as_long(), key=dict(kind='table', table='RCON')))
    for nm, refl in (('SHIFT_ROWS', F.SHIFT), ('INV_SHIFT_ROWS', F.INV_SHIFT)):
        t = getattr(_aes, nm).typed()
        a1 = z3.K(z3.BitVecSort(8), z3.BitVecVal(255, 8))
        a2 = z3.K(z3.BitVecSort(8), z3.BitVecVal(255, 8))
        for j in range(16):
            a1 = z3.Store(a1, z3.BitVecVal(j, 8), z3.BitVecVal(int(t[j]) if j < len(t) else 254, 8))
            a2 = z3.Store(a2, z3.BitVecVal(j, 8), z3.BitVecVal(refl[j], 8))
        pr.prove(z3.Implies(z3.ULT(i, 16), z3.Select(a1, i) == z3.Select(a2, i)), f'forall i < 16: {nm}[i] == FIPS shift pattern',
                 lambda m, nm=nm: dict(kind='table', table=nm, index=m.eval(i, model_completion=True).as_long(), key=dict(kind='table', table=nm)))
    # algebraic lemmas of the standard that make decrypt the inverse of encrypt
    col = [z3.BitVec(f'c{j}', 8) for j in range(4)]
    sr = F.spec_ref()
    back = sr.inv_mix_column(sr.mix_column(col))
    pr.prove(z3.And(*[a == b for a, b in zip(back, col)]), 'forall column: InvMixColumn(MixColumn(c)) == c (GF(2^8) arithmetic)')
    res['validated'] += 1 if bytes(z3.simplify(F.spec_sbox(z3.BitVecVal(0x53, 8))).as_long().to_bytes(1, 'big')) == b'\xed' else 0


def _sym_state(name, shape, dt, pr_assume):
    a = S.sym_bv(name, shape, dt)
    if rnp.dtype(dt) != rnp.uint8:
        w = rnp.dtype(dt).itemsize * 8
        hi = min(255, (1 << (w - 1)) - 1) if rnp.dtype(dt).kind == 'i' else 255
        for t in S.terms(a):
            pr_assume(z3.And(t >= 0, t <= hi) if rnp.dtype(dt).kind == 'i' else z3.ULE(t, z3.BitVecVal(255, w)))
    return a


def _low8(t):
    return t if t.size() == 8 else z3.Extract(7, 0, t)


def job_prims(job, res):
    fns = _register()
    ref = uf_ref(fns)
    pr = Prover(res)
    for shape in ((16,), (2, 16)):
        st = S.sym_bv('s', shape)
        ky = S.sym_bv('k', shape)
        rows = [S.terms(st)[i:i + 16] for i in range(0, st.size, 16)]
        krows = [S.terms(ky)[i:i + 16] for i in range(0, ky.size, 16)]
        for nm, rf in (('sub_bytes', ref.sub_bytes), ('inv_sub_bytes', ref.inv_sub_bytes), ('shift_rows', ref.shift_rows),
                       ('inv_shift_rows', ref.inv_shift_rows), ('mix_columns', ref.mix_columns), ('inv_mix_columns', ref.inv_mix_columns)):
            st = S.sym_bv('s', shape)             # a fresh array (same symbols) per primitive: nothing one call does to its argument reaches the next
            before = S.terms(st)
            out = getattr(_aes, nm)(st)
            exp = sum((rf(r) for r in rows), [])
            pr.prove(z3.Not(any_differs(S.terms(out), exp)), f'aes.{nm}(state{shape}) == FIPS {nm} for all states',
                     lambda m, nm=nm, st=st: dict(kind='prim', fn=nm, state=model_bytes(m, st), key=dict(kind='prim', fn=nm)))
            pr.prove(z3.BoolVal(out.shape == shape and frame_unchanged(before, st)), f'aes.{nm}: result shape {shape}, argument not modified',
                     lambda m, nm=nm, shape=shape: dict(kind='frame', fn=nm, shape=list(shape), key=dict(kind='frame', fn=nm)))
        st = S.sym_bv('s', shape)
        before, beforek = S.terms(st), S.terms(ky)
        out = _aes.add_round_key(st, ky)
        pr.prove(z3.BoolVal(out.shape == shape and frame_unchanged(before, st) and frame_unchanged(beforek, ky)), f'aes.add_round_key: result shape {shape}, arguments not modified',
                 lambda m, shape=shape: dict(kind='frame', fn='add_round_key', shape=list(shape), key=dict(kind='frame', fn='add_round_key')))
        exp = sum((ref.add_round_key(r, k) for r, k in zip(rows, krows)), [])
        pr.prove(z3.Not(any_differs(S.terms(out), exp)), f'aes.add_round_key(state{shape}, keys{shape}) == xor',
                 lambda m, st=st, ky=ky: dict(kind='prim', fn='add_round_key', state=model_bytes(m, st), keys=model_bytes(m, ky), key=dict(kind='prim', fn='add_round_key')))
    for shape in ((4,), (3, 4)):
        v = S.sym_bv('v', shape)
        rows = [S.terms(v)[i:i + 4] for i in range(0, v.size, 4)]
        for nm, rf in (('mix_column', ref.mix_column), ('inv_mix_column', ref.inv_mix_column)):
            out = getattr(_aes, nm)(v)
            exp = sum((rf(r) for r in rows), [])
            pr.prove(z3.Not(any_differs(S.terms(out), exp)), f'aes.{nm}(vectors{shape}) == FIPS matrix product',
                     lambda m, nm=nm, v=v: dict(kind='prim', fn=nm, state=model_bytes(m, v), key=dict(kind='prim', fn=nm)))
    S.unregister_tables()


def _inputs(job, ex):
    n, klen, sh = job['n'], job['klen'], job['shape']
    sshape = (16,) if sh[0] == '1' else (n, 16)
    kshape = (klen,) if sh[1] == '1' else (n, klen)
    st = _sym_state('pt', sshape, job['dtype'], ex.assume)
    ky = S.sym_bv('key', kshape, 'uint8')
    return st, ky, sshape, kshape


def job_flow(job, res):
    fns = _register()
    ref = uf_ref(fns)
    mode, klen = job['mode'], job['klen']
    nr = F.NR[klen]
    ex = symx.Executor(max_paths=4, timeout_ms=60000)
    CTX.reset(ex=ex)

    def body(ex):
        st, ky, sshape, kshape = _inputs(job, ex)
        res['twins'] += 1
        if ex.feasible():
            res['twins_ok'] += 1
        srows = [[_low8(t) for t in S.terms(st)[i:i + 16]] for i in range(0, st.size, 16)]
        krows = [S.terms(ky)[i:i + klen] for i in range(0, ky.size, klen)]
        nout = max(len(srows), len(krows))
        pairs = [(srows[i % len(srows)] if len(srows) > 1 else srows[0], krows[i] if len(krows) > 1 else krows[0]) for i in range(nout)]
        states = [(ref.cipher_states if mode == 'encrypt' else ref.inv_cipher_states)(s, k) for s, k in pairs]
        fn = getattr(_aes, mode)
        oshape = (16,) if nout == 1 and len(sshape) == 1 and len(kshape) == 1 else (nout, 16)
        b_st, b_ky = S.terms(st), S.terms(ky)
        stops = [(r, s) for r in range(nr + 1) for s in range(4)] + [(None, None)]
        history = []
        for (r, s) in stops:
            history.append([r, s])
            if r is None:
                out = fn(st, ky)
                validate_translation(res, mode, st, ky, S.terms(out), {}, _table_axioms())
                pos = len(states[0]) - 1
                desc = f'aes.{mode}(state{sshape} {job["dtype"]}, key{kshape}) == FIPS-197 {"Cipher" if mode == "encrypt" else "InvCipher"} output'
            else:
                out = fn(st, ky, at_round=r, after_step=s)
                if (r, s) in ((1, 2), (nr, 1)):
                    validate_translation(res, mode, st, ky, S.terms(out), dict(at_round=r, after_step=s), _table_axioms())
                pos = (F.enc_position if mode == 'encrypt' else F.dec_position)(nr, r, s)
                desc = f'aes.{mode}(state{sshape} {job["dtype"]}, key{kshape}, at_round={r}, after_step={s}) == FIPS-197 state #{pos}'
            exp = sum((stt[pos] for stt in states), [])
            got = S.terms(out)
            ok_shape = tuple(out.shape) == ((16,) if (len(sshape) == 1 and len(kshape) == 1) else (nout, 16)) and out.dtype.kind in 'iu'
            if ok_shape and out.dtype != rnp.uint8:
                # the property speaks of values, not of the result dtype: compare as integers (a negative element is not a byte of the state)
                wd = out.dtype.itemsize * 8 + 8
                got = [(z3.SignExt(wd - t.size(), t) if out.dtype.kind == 'i' else z3.ZeroExt(wd - t.size(), t)) if E.is_sym(t) else z3.BitVecVal(int(t), wd) for t in got]
                exp = [z3.ZeroExt(wd - 8, e) if E.is_sym(e) else z3.BitVecVal(int(e), wd) for e in exp]
            res['obligations'] += 1
            res['nontrivial'] += 1
            if not ok_shape or len(got) != len(exp):
                res['failures'].append(dict(kind='flow', what=desc + f' [shape/dtype {out.shape} {out.dtype}]', mode=mode, klen=klen, at_round=r, after_step=s,
                                            state=None, keyv=None, key=dict(kind='flow', mode=mode)))
                continue
            verdict, m = ex.prove(z3.Not(any_differs(got, exp)))
            if verdict == 'unsat':
                res['discharged'] += 1
                if len(res['samples']) < 2:
                    res['samples'].append(dict(obligation=desc, verdict='unsat'))
            elif verdict == 'sat':
                res['failures'].append(dict(kind='flow', what=desc, mode=mode, klen=klen, at_round=r, after_step=s, dtype=job['dtype'],
                                            state=model_bytes(m, st), keyv=model_bytes(m, ky), history=list(history), key=dict(kind='flow', mode=mode, shape=job['shape'])))
                break      # later stop points share the difference cone
            else:
                m = seeded_refute(z3.Not(any_differs(got, exp)), [c for c, _ in CTX.symbols.values()], _table_axioms(), assumptions=list(ex.pc))
                if m is not None:
                    res['failures'].append(dict(kind='flow', what=desc, mode=mode, klen=klen, at_round=r, after_step=s, dtype=job['dtype'],
                                                state=model_bytes(m, st), keyv=model_bytes(m, ky), key=dict(kind='flow', mode=mode, shape=job['shape']),
                                                route='solver unknown on the symbolic query; witness found by solving it with seeded input values'))
                else:
                    res['unknown'].append(desc + ': solver unknown')
                break
        res['obligations'] += 1
        if frame_unchanged(b_st, st) and frame_unchanged(b_ky, ky):
            res['discharged'] += 1
        else:
            res['failures'].append(dict(kind='frame', fn=mode, klen=klen, what=f'aes.{mode} modified its argument arrays', key=dict(kind='frame', fn=mode)))
        res['obligations'] += 1
        side = [c for k, c in CTX.side if k == 'index']
        v, _ = ex.prove(z3.And(*side)) if side else ('unsat', None)
        if v == 'unsat':
            res['discharged'] += 1
        else:
            res['unknown'].append('table index range side conditions not discharged')
    ex.run(body)
    st_ = ex.stats()
    res['paths'] += st_['paths']
    res['queries'] += st_['queries']
    res['solver_s'] += st_['solver_s']
    if st_['exhausted'] or st_['unknowns']:
        res['unknown'].append(f'executor: {st_}')
    S.unregister_tables()


def job_roundtrip(job, res):
    """decrypt(encrypt(x, k), k) == x over function symbols with the two inverse lemmas as quantified axioms."""
    fns = _register()
    klen = job['klen']
    CTX.reset()
    pt = S.sym_bv('pt', (16,))
    ky = S.sym_bv('key', (klen,))
    back = _aes.decrypt(_aes.encrypt(pt, ky), ky)
    pr = Prover(res, timeout_ms=120000)
    x = z3.BitVec('x', 8)
    pr.assume(z3.ForAll([x], fns['INV_SBOX'](fns['SBOX'](x)) == x))
    ref = uf_ref(fns)
    c = [z3.BitVec(f'c{j}', 8) for j in range(4)]
    for j, t in enumerate(ref.inv_mix_column(ref.mix_column(c))):
        pr.assume(z3.ForAll(c, t == c[j]))
    pr.prove(z3.Not(any_differs(S.terms(back), S.terms(pt))), f'aes.decrypt(aes.encrypt(x, k), k) == x for all x and all {klen}-byte keys (over table symbols + inverse lemmas)',
             lambda m: dict(kind='roundtrip', klen=klen, state=model_bytes(m, pt), keyv=model_bytes(m, ky), key=dict(kind='roundtrip')))
    S.unregister_tables()


def job_history(job, res):
    """No hidden state between calls: the caller reuses (overwrites in place) the same key / block arrays for a second call."""
    fns = _register()
    ref = uf_ref(fns)
    klen = job['klen']
    for mode in ('encrypt', 'decrypt'):
        explore(res, lambda ex, pr, mode=mode: _history_body(pr, ref, klen, mode), max_paths=16)
    S.unregister_tables()


def _table_axioms():
    ax = []
    for name, (nm, f, iw, vw, vals) in S.table_functions().items():
        ax += [f(z3.BitVecVal(i, 8)) == z3.BitVecVal(v, vw) for i, v in enumerate(vals)]
    return ax


def _history_body(pr, ref, klen, mode):
    if True:
        pr.fallback = lambda goal: seeded_refute(goal, [c for c, _ in CTX.symbols.values()], _table_axioms())
        fn = getattr(_aes, mode)
        st = S.sym_bv('a', (16,))
        ky = S.sym_bv('k1', (klen,))
        first = fn(st, ky)
        states = (ref.cipher_states if mode == 'encrypt' else ref.inv_cipher_states)
        a1, k1 = S.sym_bv('a', (16,)), S.sym_bv('k1', (klen,))
        pr.prove(z3.Not(any_differs(S.terms(first), states(S.terms(a1), S.terms(k1))[-1])), f'aes.{mode}: first call == FIPS-197',
                 lambda m, mode=mode: dict(kind='history', mode=mode, klen=klen, seq=[[model_bytes(m, a1), model_bytes(m, k1)]], key=dict(kind='history', mode=mode)))
        b, k2 = S.sym_bv('b', (16,)), S.sym_bv('k2', (klen,))
        st[...] = b
        ky[...] = k2
        second = fn(st, ky)
        pr.prove(z3.Not(any_differs(S.terms(second), states(S.terms(b), S.terms(k2))[-1])),
                 f'aes.{mode}: second call with the same array objects overwritten in place == FIPS-197 for the new contents',
                 lambda m, mode=mode, b=b, k2=k2: dict(kind='history', mode=mode, klen=klen, seq=[[model_bytes(m, a1), model_bytes(m, k1)], [model_bytes(m, b), model_bytes(m, k2)]],
                                                     key=dict(kind='history', mode=mode)))
        third = fn(b, k2, at_round=1, after_step=0)
        pos = (F.enc_position if mode == 'encrypt' else F.dec_position)(F.NR[klen], 1, 0)
        pr.prove(z3.Not(any_differs(S.terms(third), states(S.terms(b), S.terms(k2))[pos])), f'aes.{mode}: stop point after two full calls == FIPS-197',
                 lambda m, mode=mode: dict(kind='history', mode=mode, klen=klen, seq=[], key=dict(kind='history', mode=mode)))


def run_job(job):
    res = new_result(job['name'])
    CTX.reset()
    {'tables': job_tables, 'prims': job_prims, 'flow': job_flow, 'roundtrip': job_roundtrip, 'history': job_history}[job['kind']](job, res)
    return res


# ---------------------------------------------------------------------------------------------
# replay on the real code


def replay(w):
    import random
    import numpy as np
    from scared import aes
    cref = F.concrete_ref()
    sb, inv, mul = F.concrete_tables()
    if w['kind'] == 'table':
        exp = dict(SBOX=sb, INV_SBOX=inv, RCON=None, **{f'XTIME_{k}': mul[k] for k in mul})
        t = w['table']
        real = getattr(aes, t)
        if t == 'RCON':
            bad = [i for i in range(10) if i >= len(real) or [int(b) for b in real[i]] != [F.spec_rcon(i + 1), 0, 0, 0]]
        elif t in ('SHIFT_ROWS', 'INV_SHIFT_ROWS'):
            r = F.SHIFT if t == 'SHIFT_ROWS' else F.INV_SHIFT
            bad = [i for i in range(16) if i >= len(real) or int(real[i]) != r[i]]
        else:
            bad = [i for i in range(256) if i >= len(real) or int(real[i]) != exp[t][i]]
        return dict(reproduced=bool(bad), detail=f'{t}: entries differing from FIPS-197 at indexes {bad[:8]}')
    rnd = random.Random(1)
    if w['kind'] == 'frame':
        fn = w['fn']
        shapes = [tuple(w['shape'])] if w.get('shape') else [(16,), (2, 16)]
        for shp in shapes:
            for _ in range(8):
                a = np.array([rnd.randrange(256) for _ in range(int(np.prod(shp)))], dtype=np.uint8).reshape(shp)
                if fn in ('encrypt', 'decrypt'):
                    klen = w.get('klen', 16)
                    k = np.array([rnd.randrange(256) for _ in range(klen)], dtype=np.uint8)
                    a0, k0 = a.copy(), k.copy()
                    getattr(aes, fn)(a, k)
                    getattr(aes, fn)(a, k, at_round=1, after_step=2)
                    if (a != a0).any() or (k != k0).any():
                        return dict(reproduced=True, detail=f'aes.{fn} modified its argument arrays: state {a0.tolist()} -> {a.tolist()}, key {k0.tolist()} -> {k.tolist()}')
                    continue
                k = np.array([rnd.randrange(256) for _ in range(int(np.prod(shp)))], dtype=np.uint8).reshape(shp)
                a0, k0 = a.copy(), k.copy()
                try:
                    aes.add_round_key(a, k) if fn == 'add_round_key' else getattr(aes, fn)(a)
                except Exception as e_:
                    return dict(reproduced=True, detail=f'aes.{fn} raised {type(e_).__name__}: {e_} on a valid state {a0.tolist()}')
                if (a != a0).any() or (k != k0).any():
                    return dict(reproduced=True, detail=f'aes.{fn}(state) modified the caller\'s array: {a0.tolist()} became {a.tolist()}')
        return dict(reproduced=False, detail='the real function leaves its arguments unchanged on 16 seeded calls')

    def ref_rows(fn, rows):
        return [fn(list(r)) for r in rows]
    if w['kind'] == 'prim':
        fn = w['fn']
        tries = [(w.get('state'), w.get('keys'))]
        for _ in range(64):
            shp = np.array(w['state']).shape
            tries.append((np.array([rnd.randrange(256) for _ in range(int(np.prod(shp)))]).reshape(shp).tolist(),
                          np.array([rnd.randrange(256) for _ in range(int(np.prod(shp)))]).reshape(shp).tolist()))
        for st, ks in tries:
            a = np.array(st, dtype=np.uint8)
            rows = a.reshape(-1, a.shape[-1])
            if fn == 'add_round_key':
                got = aes.add_round_key(a, np.array(ks, dtype=np.uint8))
                exp = np.array(a) ^ np.array(ks, dtype=np.uint8)
            else:
                got = getattr(aes, fn)(a)
                exp = np.array(ref_rows(getattr(cref, fn), rows.tolist()), dtype=np.uint8).reshape(a.shape)
            if got.shape != exp.shape or (got != exp).any():
                return dict(reproduced=True, detail=f'aes.{fn}({a.tolist()}) = {got.tolist()} expected {exp.tolist()}')
        return dict(reproduced=False, detail='primitive agrees with FIPS-197 on the model and 64 seeded inputs')
    if w['kind'] == 'history':
        mode, klen = w['mode'], w['klen']
        fn = getattr(aes, mode)
        seqs = [w['seq']] if w.get('seq') else []
        for _ in range(16):
            seqs.append([[[rnd.randrange(256) for _ in range(16)], [rnd.randrange(256) for _ in range(klen)]] for _ in range(2)])
        for seq in seqs:
            a = np.zeros(16, dtype=np.uint8)
            k = np.zeros(klen, dtype=np.uint8)
            for (av, kv) in seq:
                a[...] = av
                k[...] = kv
                got = fn(a, k)
                exp = (cref.cipher_states if mode == 'encrypt' else cref.inv_cipher_states)(list(av), list(kv))[-1]
                if [int(x) for x in got] != exp:
                    return dict(reproduced=True, detail=f'sequence of aes.{mode} calls reusing the same arrays {seq}: last call returned {got.tolist()}, FIPS-197 gives {exp}')
        return dict(reproduced=False, detail='call sequences agree with FIPS-197')
    # flow / roundtrip
    klen = w['klen']
    tries = []
    if w.get('state') is not None:
        tries.append((w['state'], w['keyv']))
    sshape = np.array(w['state']).shape if w.get('state') is not None else (16,)
    kshape = np.array(w['keyv']).shape if w.get('keyv') is not None else (klen,)
    top = 128 if w.get('dtype') == 'int8' else 256
    for _ in range(64):
        tries.append((np.array([rnd.randrange(top) for _ in range(int(np.prod(sshape)))]).reshape(sshape).tolist(),
                      np.array([rnd.randrange(256) for _ in range(int(np.prod(kshape)))]).reshape(kshape).tolist()))
    for n, (st, kv) in enumerate(tries):
        a = np.array(st, dtype=w.get('dtype', 'uint8'))
        k = np.array(kv, dtype=np.uint8)
        if w['kind'] == 'roundtrip':
            got = aes.decrypt(aes.encrypt(a, k), k)
            if (got != a).any():
                return dict(reproduced=True, detail=f'decrypt(encrypt(x,k),k) != x for x={a.tolist()} k={k.tolist()}: {got.tolist()}')
            continue
        mode, r, s = w['mode'], w['at_round'], w['after_step']
        nr = F.NR[klen]
        fn = getattr(aes, mode)
        try:
            for (hr, hs) in (w.get('history') or [])[:-1]:
                fn(a, k) if hr is None else fn(a, k, at_round=hr, after_step=hs)
            got = fn(a, k) if r is None else fn(a, k, at_round=r, after_step=s)
        except Exception as ex:
            return dict(reproduced=True, detail=f'aes.{mode} raised {type(ex).__name__}: {ex} on valid input {a.tolist()} {k.tolist()}')
        srows = a.reshape(-1, 16).tolist()
        krows = k.reshape(-1, klen).tolist()
        nout = max(len(srows), len(krows))
        exp = []
        for i in range(nout):
            sts = (cref.cipher_states if mode == 'encrypt' else cref.inv_cipher_states)(srows[i] if len(srows) > 1 else srows[0], krows[i] if len(krows) > 1 else krows[0])
            pos = len(sts) - 1 if r is None else (F.enc_position if mode == 'encrypt' else F.dec_position)(nr, r, s)
            exp.append(sts[pos])
        exp = np.array(exp, dtype=np.int64)
        g = np.array(got).astype(np.int64)
        g = g.reshape(-1, 16) if g.size == exp.size else g
        if g.shape != exp.shape or (g != exp).any():
            return dict(reproduced=True, route='solver model' if n == 0 and w.get('state') is not None else 'seeded input after the solver reported differing terms',
                        detail=f'aes.{mode}(state={a.tolist()}, key={k.tolist()}, at_round={r}, after_step={s}) = {np.array(got).tolist()} but FIPS-197 gives {exp.tolist()}')
    return dict(reproduced=False, detail='real code agrees with FIPS-197 on the model and on 64 seeded inputs')
