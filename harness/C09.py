"""C09 - t-test equals the Welch statistic whatever the batching and thread timing (DESIGN.md section 5, C09)."""
import itertools
import threading
import numpy as rnp
import z3

from vp import loader, symnp as S, elem as E
from vp.elem import CTX
from vp.run import new_result
from harness.common import explore, is_identity
from harness import statlib as L
from harness.C01 import equal_elem
from harness.ths import FakeTHS

ID = 'C09'
LEVEL = 'model_checking'
META = dict(
    functions=['scared.ttest:TTestAnalysis.run/_compute', 'scared.ttest:TTestContainer', 'scared.ttest:TTestThreadAccumulator.update/_update_core/compute/run/start/join/stop', 'scared.container:Container.batches'],
    bounds=dict(quick='two symbolic trace sets of 3 and 2 traces (then 4 and 3 over two run() calls), 2 samples (3 with a frame), batch sizes 1, 2, 3, frames slice / index list, an optional row-wise preprocess, precision float32/float64; '
                      'every interleaving of the per-batch updates of the two accumulators (sets of 2 and 2 batches); a failure of each of 6 exception types injected in the k-th batch of set 1 or set 2',
                thorough='sets of 4 and 3 traces, 3 + 2 batches interleaved'),
    assumptions=['exact reals; the statistic is compared through its square and its sign (sqrt symbol)',
                 'welch / failure jobs: the two accumulation threads are run one after the other on the interpreter thread (Thread.start runs run() inline and, like a real thread, swallows an exception that escapes run()); '
                 'schedule jobs: real threads under 5 deterministic schedules (each thread processes 0, 1 or all of its batches at start() and the rest when it is joined; one thread runs at a time), the same schedules are imposed on the real code in the replay; '
                 'independence from the real schedule is decided as commutation: the two accumulators share no state and every interleaving of their per-batch updates gives term-identical state'],
    outside=['preemption inside numpy / numba calls that release the GIL', 'the CPython threading machinery itself'],
    stubs=['threading.Thread.start / join run inline (exceptions escaping run() are swallowed as in a real thread)', 'TraceHeaderSet stand-in', 'numba kernel interpreted'],
)
_m = {}


def prepare(tier, seed):
    mods = loader.load(['scared.ttest', 'scared.container', 'scared.preprocesses._base'])
    _m.update(ttest=mods[0], container=mods[1], pp=mods[2])


def jobs(tier, seed):
    js = []
    for p in ('float64', 'float32'):
        for bs in (1, 2, 3):
            js.append(dict(name=f'welch-{p}-bs{bs}', kind='welch', p=p, bs=bs, big=(tier != 'quick')))
    js += [dict(name=f'schedule-{i}', kind='welch', p='float64', bs=1, big=(tier != 'quick'), plan=i) for i in range(len(PLANS))]
    js += [dict(name='interleavings', kind='inter', big=(tier != 'quick')), dict(name='failures', kind='fail')]
    return js


class inline_threads:
    """Thread.start runs run() on the calling thread; an exception escaping run() is swallowed, as the threading module does."""

    def __enter__(self):
        self.start, self.join = threading.Thread.start, threading.Thread.join

        def start(th):
            try:
                th.run()
            except BaseException:          # noqa: B902  a real thread prints the traceback and ends
                pass
        threading.Thread.start = start
        threading.Thread.join = lambda th, timeout=None: None

    def __exit__(self, *a):
        threading.Thread.start, threading.Thread.join = self.start, self.join


class scheduled_threads:
    """Real threads under a deterministic schedule. plan[k] = number of batches the k-th started thread may process before it parks
    (None: it runs to completion at start()); a parked thread is released when it is joined. Exactly one thread runs at a time:
    start() returns once the new thread has parked or finished, join() releases it and waits. Exceptions escaping run() are
    swallowed silently, as the threading module does."""

    def __init__(self, iterable_cls, plan):
        self.I, self.plan = iterable_cls, list(plan)

    def __enter__(self):
        self.o_start, self.o_join, self.o_iter, self.o_hook = threading.Thread.start, threading.Thread.join, self.I.__iter__, threading.excepthook
        threading.excepthook = lambda a: None
        me, started = self, []

        def start(th):
            idx = len(started)
            started.append(th)
            th._vp_allow = me.plan[idx] if idx < len(me.plan) else None
            th._vp_event, th._vp_release = threading.Event(), threading.Event()
            orig_run = type(th).run.__get__(th)

            def wrapped(*a, **k):
                try:
                    return orig_run(*a, **k)
                finally:
                    th._vp_event.set()
            th.run = wrapped
            me.o_start(th)
            th._vp_event.wait(120)

        def join(th, timeout=None):
            if hasattr(th, '_vp_release'):
                th._vp_release.set()
            me.o_join(th, 120)
            if 'run' in vars(th):
                del th.run

        def gated_iter(it):
            th = threading.current_thread()
            for i, b in enumerate(me.o_iter(it)):
                allow = getattr(th, '_vp_allow', None)
                if allow is not None and i >= allow and not th._vp_release.is_set():
                    th._vp_event.set()
                    th._vp_release.wait(120)
                yield b
        threading.Thread.start, threading.Thread.join, self.I.__iter__ = start, join, gated_iter

    def __exit__(self, *a):
        threading.Thread.start, threading.Thread.join, self.I.__iter__, threading.excepthook = self.o_start, self.o_join, self.o_iter, self.o_hook


PLANS = [(None, 1), (1, None), (1, 1), (0, 0), (None, 0)]


def p1(traces):
    return traces * 3 - 1


def welch_ok(result_elem, xs1, xs2):
    n1, n2 = len(xs1), len(xs2)
    m1, m2 = z3.Sum(xs1) / n1, z3.Sum(xs2) / n2
    v1 = z3.Sum([x * x for x in xs1]) / n1 - m1 * m1
    v2 = z3.Sum([x * x for x in xs2]) / n2 - m2 * m2
    V = v1 / n1 + v2 / n2
    M = m1 - m2
    if not E.is_sym(result_elem):
        return False
    num, den = L.ratform(E.R(result_elem))
    den2 = L.eliminate_sqrt_square(den)
    if den2 is None:
        return False
    dfree = z3.substitute(den, *[(sy, z3.RealVal(1)) for sy, _ in CTX.sqrts]) if CTX.sqrts else den
    c_ = L.proportional(num * dfree, M)
    return is_identity(num * num * V == M * M * den2) and c_ is not None and c_ > 0 and is_identity(num * dfree == L.rv(c_) * M)


def job_welch(job, res):
    T, cont, pre = _m['ttest'], _m['container'], _m['pp'].preprocess
    p, bs = job['p'], job['bs']
    P1 = pre(p1)
    plan = PLANS[job['plan']] if job.get('plan') is not None else None
    threads = (lambda: scheduled_threads(cont._TracesBatchIterable, plan)) if plan is not None else inline_threads

    def body(ex, pr):
        n1, n2 = (4, 3) if job['big'] else (3, 2)
        x1 = S.sym_real('a', (n1 + 1, 3), 'float64' if p == 'float64' else 'uint8')
        x2 = S.sym_real('b', (n2 + 1, 3), 'float64' if p == 'float64' else 'uint8')
        for frame, chain in ((None, []), (slice(0, 2), [P1]), ([2, 0], [])):
            cont.set_batch_size(bs)
            tt = T.TTestAnalysis(precision=p)
            with threads():
                tt.run(T.TTestContainer(FakeTHS(x1[:n1], {}), FakeTHS(x2[:n2], {}), frame=frame, preprocesses=list(chain)))
            mark = len(CTX.side)
            cols = [0, 1, 2] if frame is None else ([0, 1] if isinstance(frame, slice) else [2, 0])
            f = (lambda t: 3 * t - 1) if chain else (lambda t: t)
            res1 = tt.result

            def wit(what):
                return lambda m, frame=frame, chain=chain: dict(kind='welch', plan=job.get('plan'), p=p, bs=bs, frame=str(frame), chain=bool(chain), n1=n1, n2=n2, what_failed=what, x1=L.model_values(m, x1), x2=L.model_values(m, x2),
                                                                key=dict(kind='welch', what=what))
            ok = tuple(S._w(res1).shape) == (len(cols),) and all(welch_ok(res1.c[j], [f(E.R(x1.c[i, c])) for i in range(n1)], [f(E.R(x2.c[i, c])) for i in range(n2)]) for j, c in enumerate(cols))
            pr.prove(z3.BoolVal(bool(ok)), f'TTestAnalysis.run(precision={p}, batch size {bs}, frame {frame}, {len(chain)} preprocess{"" if plan is None else ", thread schedule " + str(plan) + " (batches before parking)"}): result^2 (var1/n1 + var2/n2) == (mean1 - mean2)^2 and sign(result) == sign(mean1 - mean2), sets of {n1} and {n2} traces',
                     wit('welch'), sample=(frame is None))
            # a second run accumulates as if the sets were concatenated
            with threads():
                tt.run(T.TTestContainer(FakeTHS(x1[n1:], {}), FakeTHS(x2[n2:], {}), frame=frame, preprocesses=list(chain)))
            res2 = tt.result
            ok2 = tuple(S._w(res2).shape) == (len(cols),) and all(welch_ok(res2.c[j], [f(E.R(x1.c[i, c])) for i in range(n1 + 1)], [f(E.R(x2.c[i, c])) for i in range(n2 + 1)]) for j, c in enumerate(cols))
            pr.prove(z3.BoolVal(bool(ok2)), f'second run(): the statistic over the concatenated sets ({n1 + 1} and {n2 + 1} traces)', wit('welch-two-runs'), sample=False)
            del CTX.side[mark:]
            cont.set_batch_size(None)
            if res['failures']:
                return
    explore(res, body, max_paths=16, timeout_ms=20000, precision=rnp.dtype(p), exact=True)


def job_inter(job, res):
    T = _m['ttest']

    def body(ex, pr):
        nb = (3, 2) if job['big'] else (2, 2)
        A = [S.sym_real(f'a{i}', (2, 2), 'float64') for i in range(nb[0])]
        B = [S.sym_real(f'b{i}', (1, 2), 'float64') for i in range(nb[1])]
        ref = None
        orders = set(itertools.permutations(['A'] * nb[0] + ['B'] * nb[1]))
        cls_before = {k: v for k, v in vars(T.TTestThreadAccumulator).items() if not callable(v) and not k.startswith('__')}
        for order in sorted(orders):
            a, b = T.TTestThreadAccumulator(precision=rnp.dtype('float64')), T.TTestThreadAccumulator(precision=rnp.dtype('float64'))
            ia = ib = 0
            for who in order:
                if who == 'A':
                    other = L.snapshot(b)
                    a.update(A[ia])
                    ia += 1
                    untouched = not L.same_snapshot(other, L.snapshot(b))
                else:
                    other = L.snapshot(a)
                    b.update(B[ib])
                    ib += 1
                    untouched = not L.same_snapshot(other, L.snapshot(a))
                if not untouched:
                    break
            snap = (L.snapshot(a), L.snapshot(b))
            if ref is None:
                ref = snap
            same = untouched and not L.same_snapshot(ref[0], snap[0]) and not L.same_snapshot(ref[1], snap[1])
            pr.prove(z3.BoolVal(bool(same)), f'interleaving {"".join(order)} of the per-batch updates of the two accumulators: neither touches the other, final states identical to the sequential order',
                     lambda m, order=order: dict(kind='inter', order=''.join(order), key=dict(kind='inter')), sample=(order == tuple(sorted(order))))
        cls_after = {k: v for k, v in vars(T.TTestThreadAccumulator).items() if not callable(v) and not k.startswith('__')}
        pr.prove(z3.BoolVal(cls_before == cls_after), 'updates write no class-level (shared) state', lambda m: dict(kind='inter', order='class-state', key=dict(kind='inter-class')))
    explore(res, body, max_paths=8, timeout_ms=20000, exact=True)


class Boom(Exception):
    pass


EXCS = [TypeError, ValueError, RuntimeError, OSError, ZeroDivisionError, Boom]


def job_fail(job, res):
    T, cont, pre = _m['ttest'], _m['container'], _m['pp'].preprocess

    def body(ex, pr):
        x1 = S.sym_real('a', (3, 2), 'float64')
        x2 = S.sym_real('b', (3, 2), 'float64')
        for exc, which, k in itertools.product(EXCS, (1, 2), (0, 1, 2)):
            calls = {'n': 0}
            marker = x1 if which == 1 else x2

            def failing(traces, exc=exc, k=k, marker=marker):
                first = S._w(traces).c[0, 0]
                mine = any(first is marker.c[i, 0] or (E.is_sym(first) and first.eq(marker.c[i, 0])) for i in range(3))
                if mine:
                    calls['n'] += 1
                    if calls['n'] - 2 == k:          # call 1 is the trace-size probe of the container, call k + 2 is batch k of the accumulation thread
                        raise exc('injected failure')
                return traces
            cont.set_batch_size(1)
            tt = T.TTestAnalysis(precision='float64')
            raised = None
            with inline_threads():
                try:
                    tt.run(T.TTestContainer(FakeTHS(x1, {}), FakeTHS(x2, {}), preprocesses=[pre(failing)]))
                except Exception as e_:
                    raised = e_
            cont.set_batch_size(None)
            ok = isinstance(raised, exc) and not hasattr(tt, 'result')
            pr.prove(z3.BoolVal(bool(ok)), f'{exc.__name__} in batch {k} of set {which}: run() re-raises it and yields no result (raised: {type(raised).__name__ if raised else None}, result present: {hasattr(tt, "result")})',
                     lambda m, exc=exc, which=which, k=k: dict(kind='fail', exc=exc.__name__, which=which, k=k, key=dict(kind='fail', exc=exc.__name__)), sample=(exc is RuntimeError and k == 1 and which == 1))
    explore(res, body, max_paths=8, timeout_ms=20000, exact=True)


def run_job(job):
    res = new_result(job['name'])
    {'welch': job_welch, 'inter': job_inter, 'fail': job_fail}[job['kind']](job, res)
    return res


def replay(w):
    import random
    import numpy as np
    import scared
    from scared import traces as tr
    rnd = random.Random(14)
    if w['kind'] == 'welch':
        p, bs, n1, n2 = w['p'], w['bs'], w['n1'], w['n2']
        frame = None if w['frame'] == 'None' else eval(w['frame'])
        chain = [scared.preprocess(p1)] if w['chain'] else []
        a0, b0 = L.to_numpy(w['x1']), L.to_numpy(w['x2'])
        tries = [(a0, b0)] + [(np.array([rnd.randrange(0, 60) for _ in range(a0.size)], dtype=a0.dtype).reshape(a0.shape), np.array([rnd.randrange(0, 60) for _ in range(b0.size)], dtype=b0.dtype).reshape(b0.shape)) for _ in range(4)]
        for A, B in tries:
            scared.set_batch_size(bs)
            try:
                tt = scared.TTestAnalysis(precision=p)
                outs = []
                import contextlib
                sched = (lambda: scheduled_threads(scared.container._TracesBatchIterable, PLANS[w['plan']])) if w.get('plan') is not None else contextlib.nullcontext
                with np.errstate(all='ignore'), sched():
                    tt.run(scared.TTestContainer(tr.read_ths_from_ram(samples=A[:n1]), tr.read_ths_from_ram(samples=B[:n2]), frame=frame, preprocesses=chain))
                    outs.append((np.array(tt.result), A[:n1], B[:n2]))
                    tt.run(scared.TTestContainer(tr.read_ths_from_ram(samples=A[n1:]), tr.read_ths_from_ram(samples=B[n2:]), frame=frame, preprocesses=chain))
                    outs.append((np.array(tt.result), A, B))
            finally:
                scared.set_batch_size(None)
            for got, XA, XB in outs:
                fa = (XA if frame is None else XA[:, frame]).astype('float64')
                fb = (XB if frame is None else XB[:, frame]).astype('float64')
                if chain:
                    fa, fb = 3 * fa - 1, 3 * fb - 1
                with np.errstate(all='ignore'):
                    exp = (fa.mean(0) - fb.mean(0)) / np.sqrt(fa.var(0) / len(fa) + fb.var(0) / len(fb))
                tol = 1e-3 if p == 'float32' else 1e-9
                if got.shape != exp.shape or not np.allclose(got, exp, rtol=tol, atol=tol, equal_nan=True):
                    return dict(reproduced=True, detail=f'TTestAnalysis(precision={p}, batch {bs}, frame {w["frame"]}) sets {XA.tolist()} / {XB.tolist()}: {got.tolist()} but Welch gives {exp.tolist()}')
        return dict(reproduced=False, detail='agrees with the Welch statistic')
    if w['kind'] == 'fail':
        exc = {e.__name__: e for e in EXCS}[w['exc']]
        A = np.arange(6, dtype='float64').reshape(3, 2)
        B = A + 100
        calls = {'n': 0}

        @scared.preprocess
        def failing(traces):
            if (traces[0, 0] < 50) == (w['which'] == 1):
                calls['n'] += 1
                if calls['n'] - 2 == w['k']:
                    raise exc('injected failure')
            return traces
        scared.set_batch_size(1)
        try:
            tt = scared.TTestAnalysis(precision='float64')
            raised = None
            try:
                tt.run(scared.TTestContainer(tr.read_ths_from_ram(samples=A), tr.read_ths_from_ram(samples=B), preprocesses=[failing]))
            except Exception as e_:
                raised = e_
        finally:
            scared.set_batch_size(None)
        bad = not isinstance(raised, exc) or hasattr(tt, 'result')
        return dict(reproduced=bool(bad), detail=f'{w["exc"]} in batch {w["k"]} of set {w["which"]}: raised {type(raised).__name__ if raised else None}, result present: {hasattr(tt, "result")}')
    return dict(reproduced=False, detail='interleaving witnesses are structural (no deterministic replay of a schedule)')
