"""C10 - key schedules: AES expansion from any window, DES PC-1/shift/PC-2, get_master_key (DESIGN.md section 5, C10)."""
import numpy as rnp
import z3

from vp import loader, symnp as S, elem as E, symx
from vp.elem import CTX
from vp.run import new_result
from ref import fips197 as F, fips46 as D
from harness.common import Prover, PathProver, any_differs, model_bytes, explore, seeded_refute, rng
import harness.C05 as C05

ID = 'C10'
LEVEL = 'model_checking'
META = dict(
    functions=['scared.aes.base:key_schedule', 'scared.aes.base:key_expansion', 'scared.aes.base:_expand_forward', 'scared.aes.base:_expand_backward',
               'scared.aes.base:inv_key_schedule', 'scared.des.base:key_schedule', 'scared.des.base:get_master_key', 'scared.des.base:_find_possible_keys',
               'scared.des.base:_convert_hypothesis_bits_into_keys', 'scared.des.base:PC1', 'scared.des.base:PC2'],
    bounds=dict(
        quick='AES: all keys (symbolic 16/24/32 bytes), every (col_in, col_out) pair with col_in in [0,total-Nk], col_out in [0,total] whose sum is even or that lies on a boundary; '
              'single keys and a batch of 2; inv_key_schedule for rounds 0..10.  DES: all keys, all interrupt_after_round 0..15, single and batch of 2. '
              'get_master_key: per round index, master keys whose 3 of the 8 bits absent from that round key are symbolic (the other 5 all-ones / all-zeros / seeded), remaining 48 bits seeded',
        thorough='AES: every (col_in, col_out) pair.  get_master_key: all 8 absent bits symbolic (256 keys per round and seed, explored by solver-driven forking)'),
    assumptions=['AES S-box reads are function symbols (tied to FIPS-197 by the C05 table lemma)',
                 'get_master_key: DES encryptions on fully concrete arguments are executed by the real scared.des on real numpy (same source tree)'],
    outside=['get_master_key for arbitrary 56-bit keys in one query: its control flow depends on every round-key bit, so only the absent bits are symbolic; the other bits are seeded (VERIF_SEED)'],
    stubs=[],
)
_aes = _des = _real_des = None


def prepare(tier, seed):
    global _aes, _des, _real_des
    _aes, _des = loader.load(['scared.aes.base', 'scared.des.base'])
    C05._aes = _aes
    _real_des, = loader.load_real(['scared.des.base'])


def jobs(tier, seed):
    js = []
    for klen in (16, 24, 32):
        total = 4 * (F.NR[klen] + 1)
        nk = klen // 4
        for n in (1, 2):
            for chunk in range(4):
                js.append(dict(name=f'aes-window-k{klen}-n{n}-c{chunk}', kind='aes', klen=klen, n=n, chunk=chunk, tier=tier))
    js.append(dict(name='aes-inv-schedule', kind='aesinv'))
    js.append(dict(name='des-schedule', kind='des'))
    for r in range(16):
        js.append(dict(name=f'des-master-r{r:02d}', kind='master', r=r, tier=tier, seed=seed))
    return js


def job_aes(job, res):
    fns = C05._register()
    ref = C05.uf_ref(fns)
    klen, n = job['klen'], job['n']
    nk = klen // 4
    total = 4 * (F.NR[klen] + 1)
    pr = Prover(res)
    key = S.sym_bv('key', (klen,) if n == 1 else (n, klen))
    krows = [S.terms(key)[i:i + klen] for i in range(0, key.size, klen)]
    W = [ref.key_expansion(k) for k in krows]          # true schedule: list of words (4 bytes) per key
    if job['chunk'] == 0:
        ks = _aes.key_schedule(key)
        exp = sum((sum(w, []) for w in W), [])
        ok = tuple(ks.shape) == ((total // 4, 16) if n == 1 else (n, total // 4, 16))
        pr.prove(z3.And(z3.BoolVal(ok), z3.Not(any_differs(S.terms(ks), exp))) if ok else z3.BoolVal(False),
                 f'aes.key_schedule(key{tuple(key.shape)}) == FIPS-197 KeyExpansion for all {klen}-byte keys',
                 lambda m: dict(kind='aes', klen=klen, col_in=0, col_out=None, keyv=model_bytes(m, key), key=dict(kind='aes-schedule', klen=klen)))
    pairs = [(ci, co) for ci in range(0, total - nk + 1) for co in range(0, total + 1)]
    if job['tier'] == 'quick':
        pairs = [(ci, co) for (ci, co) in pairs if (ci + co) % 2 == 0 or ci in (0, total - nk) or co in (0, total) or abs(co - ci) <= nk + 1]
    pairs = pairs[job['chunk']::4]
    for (ci, co) in pairs:
        win = S.from_terms([sum(w[ci:ci + nk], []) for w in W] if n > 1 else sum(W[0][ci:ci + nk], []), 'uint8')
        out = _aes.key_expansion(win, col_in=ci, col_out=co)
        lo, hi = (ci, co) if ci < co else (co, ci + nk)
        exp = sum((sum(w[lo:hi], []) for w in W), [])
        desc = f'aes.key_expansion(columns [{ci},{ci + nk}) of the true schedule, col_in={ci}, col_out={co}) == columns [{lo},{hi}) of the true schedule ({klen}-byte keys, {n} key(s))'
        got = S.terms(out)
        if tuple(out.shape) != (n, 4 * (hi - lo)) or len(got) != len(exp):
            res['obligations'] += 1
            res['failures'].append(dict(kind='aes', what=desc + f' [shape {out.shape}]', klen=klen, col_in=ci, col_out=co, keyv=None, n=n, key=dict(kind='aes-window', klen=klen)))
            continue
        pr.prove(z3.Not(any_differs(got, exp)), desc,
                 lambda m, ci=ci, co=co: dict(kind='aes', klen=klen, col_in=ci, col_out=co, n=n, keyv=model_bytes(m, key), key=dict(kind='aes-window', klen=klen, fwd=ci < co)),
                 sample=(ci, co) in ((0, total), (total - nk, 0)))
    S.unregister_tables()


def job_aesinv(job, res):
    fns = C05._register()
    ref = C05.uf_ref(fns)
    pr = Prover(res)
    for n in (1, 2):
        key = S.sym_bv('key', (16,) if n == 1 else (n, 16))
        krows = [S.terms(key)[i:i + 16] for i in range(0, key.size, 16)]
        RK = [ref.round_keys(k) for k in krows]
        for r in range(11):
            rk = S.from_terms([x[r] for x in RK] if n > 1 else RK[0][r], 'uint8')
            out = _aes.inv_key_schedule(rk, round_in=r)
            exp = sum((sum(x, []) for x in RK), [])
            pr.prove(z3.Not(any_differs(S.terms(out), exp)) if len(S.terms(out)) == len(exp) else z3.BoolVal(False),
                     f'aes.inv_key_schedule(round key {r} of the true schedule, round_in={r}) == the whole true schedule (AES-128, {n} key(s))',
                     lambda m, r=r: dict(kind='aesinv', round=r, n=n, keyv=model_bytes(m, key), key=dict(kind='aesinv')))
    S.unregister_tables()


def job_des(job, res):
    pr = Prover(res)
    pr.prove(z3.BoolVal(list(_des.PC1) == D.PC1), 'des.PC1 == PC-1 of FIPS 46-3', lambda m: dict(kind='destable', table='PC1', key=dict(kind='destable')))
    pr.prove(z3.BoolVal(list(_des.PC2) == D.PC2), 'des.PC2 == PC-2 of FIPS 46-3', lambda m: dict(kind='destable', table='PC2', key=dict(kind='destable')))
    for n in (1, 2):
        key = S.sym_bv('key', (8,) if n == 1 else (n, 8))
        krows = [S.terms(key)[i:i + 8] for i in range(0, key.size, 8)]
        refk = [D.key_schedule_bits(k) for k in krows]
        for stop in range(16):
            out = _des.key_schedule(key, interrupt_after_round=stop)
            ok = tuple(out.shape) == ((stop + 1, 8) if n == 1 else (n, stop + 1, 8)) and out.dtype == rnp.uint8
            exp = [z3.ZeroExt(2, z3.Concat(*rk[r][6 * w:6 * w + 6])) for rk in refk for r in range(stop + 1) for w in range(8)]
            got = S.terms(out)
            if not ok or len(got) != len(exp):
                pr.prove(z3.BoolVal(False), f'des.key_schedule(key{tuple(key.shape)}, interrupt_after_round={stop}) has shape {(stop + 1, 8)}',
                         lambda m, stop=stop: dict(kind='des', stop=stop, n=n, keyv=model_bytes(m, key), key=dict(kind='des')))
                continue
            for j, (g, e_) in enumerate(zip(got, exp)):
                pr.prove(g == e_ if E.is_sym(g) else z3.BitVecVal(int(g), 8) == e_,
                         f'des.key_schedule(key{tuple(key.shape)}, interrupt_after_round={stop}) word {j} == PC-2(shift(PC-1(key))) word, all keys',
                         lambda m, stop=stop: dict(kind='des', stop=stop, n=n, keyv=model_bytes(m, key), key=dict(kind='des')), sample=(stop == 15 and j == 0))
        out = _des.key_schedule(key)
        pr.prove(z3.BoolVal(tuple(out.shape) == ((16, 8) if n == 1 else (n, 16, 8))), 'des.key_schedule default returns all 16 round keys')


def _hybrid(shim_fn, real_fn):
    """Concrete calls go to the real function on real numpy; symbolic ones to the interpreted source."""
    def f(*a, **k):
        if S._any_sym(a) or S._any_sym(list(k.values())):
            return shim_fn(*a, **k)
        return S._from_real(real_fn(*S._real_arg(a), **S._real_arg(k)))
    return f


def job_master(job, res):
    r = job['r']
    rnd = rng(job['seed'], 'master', r)
    # the bits of the 64-bit key (0-based, msb first) that PC-1 keeps but round key r does not contain
    sched = D.key_schedule_bits([z3.BitVec(f'kb{i}', 8) for i in range(8)])
    used = set()
    for b in sched[r]:
        # each round-key bit is Extract(j, j, kb_i)
        byte = int(str(b.arg(0))[2:])
        used.add(byte * 8 + (7 - b.params()[0]))
    pc1_bits = set(i - 1 for i in D.PC1)
    absent = sorted(pc1_bits - used)
    assert len(absent) == 8, absent
    nsym = 8 if job['tier'] == 'thorough' else 3
    fills = ['ones', 'zeros', 'rand'] if job['tier'] == 'quick' else ['rand']
    orig_enc = _des.encrypt
    _des.encrypt = _hybrid(orig_enc, _real_des.encrypt)
    try:
        for fill in fills:
            base = [rnd.randrange(256) for _ in range(8)]
            pt = [rnd.randrange(256) for _ in range(8)]
            symbits = absent[:nsym]
            for pos in absent[nsym:]:
                bit = {'ones': 1, 'zeros': 0, 'rand': rnd.randrange(2)}[fill]
                base[pos // 8] = (base[pos // 8] & ~(1 << (7 - pos % 8))) | (bit << (7 - pos % 8))
            CTX.reset()
            bits = {pos: z3.BitVec(f'kbit_{pos}', 1) for pos in symbits}
            kterms = []
            for i in range(8):
                parts = [bits[8 * i + j] if (8 * i + j) in bits else z3.BitVecVal((base[i] >> (7 - j)) & 1, 1) for j in range(8)]
                kterms.append(z3.simplify(z3.Concat(*parts)))
            ptarr = S.const(rnp.array(pt, dtype=rnp.uint8))
            # expected ciphertext of the reference DES as a function of the symbolic key bits (one concrete reference encryption per assignment)
            ref = D.DesRef()
            ct_terms = [z3.BitVecVal(0, 8)] * 8
            sel = z3.Concat(*[bits[p_] for p_ in symbits]) if len(symbits) > 1 else bits[symbits[0]]
            for a in range(1 << len(symbits)):
                kb = list(base)
                for j, pos in enumerate(symbits):
                    bit = (a >> (len(symbits) - 1 - j)) & 1
                    kb[pos // 8] = (kb[pos // 8] & ~(1 << (7 - pos % 8))) | (bit << (7 - pos % 8))
                cc = D.concrete_eval(ref.des_pass([z3.BitVecVal(b, 8) for b in pt], D.key_schedule_bits([z3.BitVecVal(b, 8) for b in kb]))['out'])
                cond = sel == z3.BitVecVal(a, len(symbits))
                ct_terms = [z3.If(cond, z3.BitVecVal(cc[i], 8), ct_terms[i]) for i in range(8)]
            ct = S.from_terms(ct_terms, 'uint8')
            rkbits = D.key_schedule_bits(kterms)[r]
            rk = [z3.simplify(z3.ZeroExt(2, z3.Concat(*rkbits[6 * w:6 * w + 6]))).as_long() for w in range(8)]   # concrete: independent of the absent bits
            rkarr = S.const(rnp.array(rk, dtype=rnp.uint8))

            def body(ex, pr):
                got = _des.get_master_key(rkarr, r, ptarr, ct)
                desc = f'des.get_master_key(round key {r}, nb_round={r}, plaintext, ciphertext) == master key up to parity (absent bits {symbits} symbolic, others {fill})'
                if got is None:
                    pr.prove(z3.BoolVal(False), desc + ' [returned None]',
                             lambda m: dict(kind='master', r=r, pt=pt, keyv=[m.eval(t, model_completion=True).as_long() for t in kterms], key=dict(kind='master')))
                    return
                g = [int(x) for x in S._w(got).typed()]
                goal = z3.And(*[(z3.BitVecVal(g[i] & 0xFE, 8) == (kterms[i] & 0xFE)) for i in range(8)])
                pr.prove(goal, desc, lambda m: dict(kind='master', r=r, pt=pt, keyv=[m.eval(t, model_completion=True).as_long() for t in kterms], key=dict(kind='master')))
            explore(res, body, max_paths=600, timeout_ms=20000)
    finally:
        _des.encrypt = orig_enc


def run_job(job):
    res = new_result(job['name'])
    CTX.reset()
    {'aes': job_aes, 'aesinv': job_aesinv, 'des': job_des, 'master': job_master}[job['kind']](job, res)
    return res


def replay(w):
    import random
    import numpy as np
    from scared import aes, des
    rnd = random.Random(3)
    cref = F.concrete_ref()
    if w['kind'] == 'aes':
        klen, ci, co, n = w['klen'], w['col_in'], w['col_out'], w.get('n', 1)
        nk = klen // 4
        tries = ([w['keyv']] if w.get('keyv') is not None else []) + [np.array([rnd.randrange(256) for _ in range(n * klen)]).reshape((klen,) if n == 1 else (n, klen)).tolist() for _ in range(16)]
        for kv in tries:
            k = np.array(kv, dtype=np.uint8)
            rows = k.reshape(-1, klen).tolist()
            Wc = [cref.key_expansion(list(r_)) for r_ in rows]
            if co is None:
                got = np.array(aes.key_schedule(k)).reshape(len(rows), -1).tolist()
                exp = [sum(w_, []) for w_ in Wc]
            else:
                win = np.array([sum(w_[ci:ci + nk], []) for w_ in Wc], dtype=np.uint8)
                got = np.array(aes.key_expansion(win if n > 1 else win[0], col_in=ci, col_out=co)).reshape(len(rows), -1).tolist()
                lo, hi = (ci, co) if ci < co else (co, ci + nk)
                exp = [sum(w_[lo:hi], []) for w_ in Wc]
            if got != exp:
                return dict(reproduced=True, detail=f'key {rows}: aes key expansion col_in={ci} col_out={co} gives {got} but FIPS-197 gives {exp}')
        return dict(reproduced=False, detail='agrees with FIPS-197 on the model and seeded keys')
    if w['kind'] == 'aesinv':
        r, n = w['round'], w.get('n', 1)
        tries = ([w['keyv']] if w.get('keyv') is not None else []) + [np.array([rnd.randrange(256) for _ in range(n * 16)]).reshape((16,) if n == 1 else (n, 16)).tolist() for _ in range(16)]
        for kv in tries:
            rows = np.array(kv, dtype=np.uint8).reshape(-1, 16).tolist()
            RK = [cref.round_keys(list(x)) for x in rows]
            rk = np.array([x[r] for x in RK], dtype=np.uint8)
            got = np.array(aes.inv_key_schedule(rk if n > 1 else rk[0], round_in=r)).reshape(len(rows), -1).tolist()
            exp = [sum(x, []) for x in RK]
            if got != exp:
                return dict(reproduced=True, detail=f'inv_key_schedule(round key {r} of {rows}) = {got} expected {exp}')
        return dict(reproduced=False, detail='agrees')
    if w['kind'] == 'destable':
        t = w['table']
        return dict(reproduced=list(getattr(des, t)) != getattr(D, t), detail=f'des.{t} differs from FIPS 46-3')
    if w['kind'] == 'des':
        stop, n = w['stop'], w.get('n', 1)
        tries = ([w['keyv']] if w.get('keyv') is not None else []) + [np.array([rnd.randrange(256) for _ in range(n * 8)]).reshape((8,) if n == 1 else (n, 8)).tolist() for _ in range(16)]
        for kv in tries:
            k = np.array(kv, dtype=np.uint8)
            rows = k.reshape(-1, 8).tolist()
            got = np.array(des.key_schedule(k, interrupt_after_round=stop)).reshape(len(rows), -1).tolist()
            exp = []
            for row in rows:
                rk = D.key_schedule_bits([z3.BitVecVal(b, 8) for b in row])
                exp.append([z3.simplify(z3.ZeroExt(2, z3.Concat(*rk[r][6 * wd:6 * wd + 6]))).as_long() for r in range(stop + 1) for wd in range(8)])
            if got != exp:
                return dict(reproduced=True, detail=f'des.key_schedule({rows}, interrupt_after_round={stop}) = {got} but PC-1/shift/PC-2 give {exp}')
        return dict(reproduced=False, detail='agrees')
    if w['kind'] == 'master':
        r, pt, kv = w['r'], w['pt'], w['keyv']
        k = np.array(kv, dtype=np.uint8)
        p = np.array(pt, dtype=np.uint8)
        rkb = D.key_schedule_bits([z3.BitVecVal(b, 8) for b in kv])[r]
        rk = np.array([z3.simplify(z3.ZeroExt(2, z3.Concat(*rkb[6 * wd:6 * wd + 6]))).as_long() for wd in range(8)], dtype=np.uint8)
        ref = D.DesRef()
        ct = np.array(D.concrete_eval(ref.des_pass([z3.BitVecVal(b, 8) for b in pt], D.key_schedule_bits([z3.BitVecVal(b, 8) for b in kv]))['out']), dtype=np.uint8)
        def once(kv_, r_):
            rkb_ = D.key_schedule_bits([z3.BitVecVal(b, 8) for b in kv_])
            rk_ = np.array([z3.simplify(z3.ZeroExt(2, z3.Concat(*rkb_[r_][6 * wd:6 * wd + 6]))).as_long() for wd in range(8)], dtype=np.uint8)
            ct_ = np.array(D.concrete_eval(ref.des_pass([z3.BitVecVal(b, 8) for b in pt], rkb_)['out']), dtype=np.uint8)
            g = des.get_master_key(rk_, r_, p, ct_)
            return g, (g is None or [int(x) & 0xFE for x in g] != [b & 0xFE for b in kv_])
        got, bad = once(kv, r)
        if not bad:
            # the symbolic run makes many calls in one process: replay the call after two earlier calls with other keys / rounds as well
            once([(b * 7 + 13) % 256 for b in kv], (r + 5) % 16)
            once([(b * 3 + 101) % 256 for b in kv], (r + 9) % 16)
            got, bad = once(kv, r)
            if bad:
                return dict(reproduced=True, detail=f'get_master_key(round key {r} of {kv}, plaintext {pt}) returned {None if got is None else [int(x) for x in got]} when called after two calls for other keys (the same call is right in a fresh process)')
        return dict(reproduced=bool(bad), detail=f'get_master_key(round key {r} of {kv}, plaintext {pt}) returned {None if got is None else [int(x) for x in got]}')
    return dict(reproduced=False, detail='unknown witness kind')
