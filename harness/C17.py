"""C17 - on simulated leakage every attack ranks the true key first (DESIGN.md section 5, C17)."""
import sys
import random
import itertools
import numpy as rnp
import z3

from vp import loader, symnp as S, elem as E
from vp.elem import CTX
from vp.run import new_result
from harness.common import explore, seeded_refute, EvalModel
from harness import statlib as L
from harness.ths import FakeTHS
from ref import fips197 as F, fips46 as D

ID = 'C17'
LEVEL = 'model_checking'
META = dict(
    functions=['scared.analysis.base:BaseAttack.run/process/compute_results', 'scared.analysis._analysis:CPAAttack/DPAAttack/NICVAttack', 'scared.container:Container',
               'scared.aes.selection_functions.encrypt:FirstSubBytes/LastSubBytes (+ expected key functions)', 'scared.des.selection_functions.encrypt:FirstSboxes/LastSboxes (+ expected key functions)',
               'scared.models:HammingWeight/Monobit', 'scared.discriminants:maxabs'],
    bounds=dict(quick='seeded instances (VERIF_SEED): AES-128/192/256 and DES keys, 32 plaintexts, one attacked word, 8 guesses containing the value of the expected-key function and the true round-key word; '
                      'traces = [model(real intermediate state under the true key, computed with the FIPS reference) + noise, constant 0 (padding sample)], noise = ANY vector in a 2- or 4-dimensional subspace with coefficients in [-0.1, 0.1] (CPA, NICV) resp. [-0.2, 0.2] (DPA) (symbolic); '
                      'attack classes CPA (2 noise dimensions), DPA (4), NICV (2) through Container (two batches) -> selection function -> model -> distinguisher; '
                      'obligation: the statistic of the guess returned by the expected-key function strictly exceeds that of every other guess, for ALL noise vectors in the box',
                thorough='more instances (3 seeds), 6 noise dimensions for CPA / DPA'),
    assumptions=['instances (keys, plaintexts) are concrete and seeded: "for all keys" is NOT claimed, only "for all bounded noise vectors of the subspace" per instance', 'exact reals',
                 'the ranking is proved on results (squares / cross-multiplied ratios); scores == discriminant(results) is C02'],
    outside=['MIA and template attacks (their scores are not polynomial in the noise: bins / matrix inverse)', 'SNR and ANOVA attacks: their statistic is undefined (NaN) for vanishing noise, which the noise box contains, and the degree-4 inequalities in 4 variables did not finish in nlsat', 'unrestricted noise vectors', '256-guess runs with symbolic noise'],
    stubs=['TraceHeaderSet stand-in', 'symbolic clock for kernel selection is replaced by a deterministic clock in this check'],
)
_m = {}
NOISE_DIM = 4
EPS = 0.2


def prepare(tier, seed):
    L.load_distinguishers()
    mods = loader.load(['scared.container', 'scared.analysis', 'scared.models', 'scared.discriminants', 'scared.aes.selection_functions.encrypt', 'scared.des.selection_functions.encrypt',
                        'scared.aes.base', 'scared.des.base'])
    _m.update(container=mods[0], analysis=mods[1], models=mods[2], disc=mods[3], aes_sf=mods[4], des_sf=mods[5], aes=mods[6], des=mods[7])


INSTANCES = [('aes', 'FirstSubBytes', 16), ('aes', 'LastSubBytes', 16), ('aes', 'LastSubBytes', 24), ('aes', 'LastSubBytes', 32), ('des', 'FirstSboxes', 8), ('des', 'LastSboxes', 8)]
ATTACKS = ['CPAAttack', 'DPAAttack', 'NICVAttack']
DIMS = {'CPAAttack': 2, 'DPAAttack': 4, 'NICVAttack': 2}
EPSS = {'CPAAttack': 0.1, 'DPAAttack': 0.2, 'NICVAttack': 0.1}


def jobs(tier, seed):
    seeds = [seed] if tier == 'quick' else [seed, seed + 1, seed + 2]
    js = [dict(name=f'{c}-{sf}-k{k}-{a}-s{s}', cipher=c, sf=sf, klen=k, attack=a, seed=s) for (c, sf, k) in INSTANCES for a in ATTACKS for s in seeds]
    # identity (Value) model: intermediate values up to 255 reach the distinguisher in their integer dtype
    js += [dict(name=f'{c}-{sf}-k{k}-CPAAttack-value-s{seed}', cipher=c, sf=sf, klen=k, attack='CPAAttack', seed=seed, model='value') for (c, sf, k) in INSTANCES[:2]]
    return js


def instance(cipher, sfname, klen, seed, T=32):
    """Concrete instance: key, texts, attacked word, true intermediate values (from the FIPS references), guesses."""
    r = random.Random(f'{cipher}-{sfname}-{klen}-{seed}')
    key = [r.randrange(256) for _ in range(klen)]
    if cipher == 'aes':
        ref = F.concrete_ref()
        sb, inv, _ = F.concrete_tables()
        w = r.randrange(16)
        pts = [[r.randrange(256) for _ in range(16)] for _ in range(T)]
        rks = ref.round_keys(key)
        if sfname == 'FirstSubBytes':
            texts, tag = pts, 'plaintext'
            true_word = rks[0][w]
            inter = [sb[p[w] ^ true_word] for p in pts]
        else:
            cts = [ref.cipher_states(p, key)[-1] for p in pts]
            texts, tag = cts, 'ciphertext'
            true_word = rks[-1][w]
            inter = [inv[c[w] ^ true_word] for c in cts]          # state entering the last SubBytes, at the position that ShiftRows moves to w
        space = 256
    else:
        dref = D.DesRef()
        w = r.randrange(8)
        pts = [[r.randrange(256) for _ in range(8)] for _ in range(T)]
        ks = D.key_schedule_bits([z3.BitVecVal(b, 8) for b in key])
        wordof = lambda rnd_: z3.simplify(z3.Concat(*ks[rnd_][6 * w:6 * w + 6])).as_long()  # noqa: E731
        if sfname == 'FirstSboxes':
            texts, tag = pts, 'plaintext'
            true_word = wordof(0)
        else:
            texts = [D.concrete_eval(dref.des_pass([z3.BitVecVal(b, 8) for b in p], ks)['out']) for p in pts]
            tag = 'ciphertext'
            true_word = wordof(15)
        inter = []
        for t in texts:
            rk = [[z3.BitVecVal((true_word >> (5 - i)) & 1, 1) for i in range(6)] * 8] * 16
            tr = dref.des_pass([z3.BitVecVal(b, 8) for b in t], rk)
            v, _ = D.DesRef.stop_value(tr, 0, 3, True, True)
            inter.append(z3.simplify(v[w]).as_long())
        space = 64
    basis = [[r.choice((-1.0, 1.0)) * r.choice((0.5, 1.0)) for _ in range(T)] for _ in range(NOISE_DIM)]
    return dict(key=key, texts=texts, tag=tag, w=w, true_word=true_word, inter=inter, space=space, basis=basis, rnd=r)


def poly_of(term):
    """Expand an arithmetic z3 term into {sorted tuple of variable names: Fraction}; None if it is not a polynomial with numeric coefficients."""
    from fractions import Fraction
    cache = {}

    def mul(a, b):
        out = {}
        for ma, ca in a.items():
            for mb, cb in b.items():
                k = tuple(sorted(ma + mb))
                out[k] = out.get(k, 0) + ca * cb
        return out

    def go(t):
        k = t.get_id()
        if k in cache:
            return cache[k]
        r = None
        if z3.is_rational_value(t):
            r = {(): Fraction(t.numerator_as_long(), t.denominator_as_long())}
        elif z3.is_int_value(t):
            r = {(): Fraction(t.as_long())}
        elif z3.is_const(t) and t.decl().kind() == z3.Z3_OP_UNINTERPRETED:
            r = {(str(t),): Fraction(1)}
        elif z3.is_app(t):
            kind = t.decl().kind()
            ch = [go(c) for c in t.children()]
            if any(c is None for c in ch):
                r = None
            elif kind == z3.Z3_OP_ADD:
                r = {}
                for c in ch:
                    for m, v in c.items():
                        r[m] = r.get(m, 0) + v
            elif kind == z3.Z3_OP_SUB:
                r = dict(ch[0])
                for c in ch[1:]:
                    for m, v in c.items():
                        r[m] = r.get(m, 0) - v
            elif kind == z3.Z3_OP_UMINUS:
                r = {m: -v for m, v in ch[0].items()}
            elif kind == z3.Z3_OP_MUL:
                r = ch[0]
                for c in ch[1:]:
                    r = mul(r, c)
            elif kind == z3.Z3_OP_DIV and len(ch[1]) == 1 and () in ch[1] and ch[1][()] != 0:
                r = {m: v / ch[1][()] for m, v in ch[0].items()}
            elif kind == z3.Z3_OP_POWER and len(ch[1]) == 1 and () in ch[1] and ch[1][()].denominator == 1 and 0 <= ch[1][()] <= 8:
                r = {(): Fraction(1)}
                for _ in range(int(ch[1][()])):
                    r = mul(r, ch[0])
            elif kind == z3.Z3_OP_TO_REAL:
                r = ch[0]
        cache[k] = r
        return r
    return go(term)


def monomial_bound_positive(P, eps):
    """P(e) > 0 on the box |e_j| <= eps, decided by z3 on a linear relaxation: P is expanded exactly into monomials and every
    non-constant monomial is replaced by an independent variable bounded by eps^degree (sound: the relaxation has more solutions).
    Returns True when z3 proves the relaxed inequality, else None."""
    from fractions import Fraction
    pl = poly_of(P)
    if pl is None:
        return None
    e_ = Fraction(eps).limit_denominator(10 ** 6)
    sol = z3.Solver()
    sol.set('timeout', 10000)
    expr = L.rv(pl.get((), Fraction(0)))
    for i, (m, v) in enumerate(pl.items()):
        if m == ():
            continue
        mv = z3.Real(f'mono_{i}')
        b = L.rv(e_ ** len(m))
        sol.add(mv <= b, mv >= -b)
        expr = expr + L.rv(v) * mv
    sol.add(z3.Not(expr > 0))
    return True if sol.check() == z3.unsat else None


def hw(v):
    return bin(v).count('1')


def run_job(job):
    res = new_result(job['name'])
    cipher, sfname, klen, attack, seed = job['cipher'], job['sf'], job['klen'], job['attack'], job['seed']
    inst = instance(cipher, sfname, klen, seed)
    cont, A, models, disc = _m['container'], _m['analysis'], _m['models'], _m['disc']
    sfmod = _m['aes_sf'] if cipher == 'aes' else _m['des_sf']

    def body(ex, pr):
        L.CLOCK.reset(mode='concrete')
        T = len(inst['texts'])
        w = inst['w']
        nd = DIMS[attack]
        e = [E.register(z3.Real(f'e{j}'), [0, 1, -1]) for j in range(nd)]
        EPSA = EPSS[attack]
        eps = E.R(EPSA)
        for t in e:
            ex.assume(z3.And(t >= -eps, t <= eps))
        dpa = attack.startswith('DPA')
        value_model = job.get('model') == 'value'
        leak = [(v & 1) if dpa else (v if value_model else hw(v)) for v in inst['inter']]
        # second sample: a constant (zero padding), where CPA / NICV are undefined (NaN) and must not disturb the scores
        samples = S.from_terms([[z3.RealVal(leak[i]) + z3.Sum([e[j] * E.R(inst['basis'][j][i]) for j in range(nd)]), z3.RealVal(0)] for i in range(T)], 'float64')
        key_arr = S.const(rnp.array([inst['key']] * T, dtype='uint8'))
        texts = S.const(rnp.array(inst['texts'], dtype='uint8'))
        # guesses: the value of the real expected-key function for this word, the true round-key word, and seeded others
        probe = getattr(sfmod, sfname)(words=w)
        ek = S._w(probe.compute_expected_key(key=S.const(rnp.array(inst['key'], dtype='uint8')))).typed()
        ekw = int(ek[w])
        others = [g for g in inst['rnd'].sample(range(inst['space']), 12) if g not in (ekw, inst['true_word'])]
        G = [ekw] + ([inst['true_word']] if inst['true_word'] != ekw else []) + others
        G = G[:8]
        sf = getattr(sfmod, sfname)(guesses=rnp.array(G, dtype='uint8'), words=[w])
        model = models.Monobit(0) if dpa else (models.Value() if value_model else models.HammingWeight())
        kw = dict(selection_function=sf, model=model, discriminant=disc.maxabs, precision='float64')
        if attack[:3] in ('NIC', 'SNR', 'ANO'):
            kw['partitions'] = list(range(9))
        an = getattr(A, attack)(**kw)
        cont.set_batch_size(T // 2)           # two batches: both accumulation kernels are used
        try:
            an.run(cont.Container(FakeTHS(samples, {inst['tag']: texts, 'key': key_arr})))
        finally:
            cont.set_batch_size(None)
        results = S._w(an.results)            # (guesses, words=1, samples=1)
        ok_shape = tuple(results.shape) == (len(G), 1, 2)
        inputs = e

        def wit(what, g=None):
            return lambda m: dict(kind='rank', cipher=cipher, sf=sfname, klen=klen, attack=attack, seed=seed, model=job.get('model'), what_failed=what, guess=g, guesses=G, expected=ekw,
                                  noise=[float(L.frac_of_model(m, t)) for t in e] + [0.0] * (NOISE_DIM - nd), key=dict(kind='rank', attack=attack, sf=sfname, klen=klen, what=what))
        pr.prove(z3.BoolVal(ok_shape), f'{attack} with {sfname} ({cipher}, {klen}-byte key): results have shape (guesses, words, samples)', wit('shape'))
        if not ok_shape:
            return
        pr.fallback = lambda goal: seeded_refute(goal, inputs, assumptions=list(ex.pc), tries=4)
        sc = S._w(an.scores)
        ok_sc = tuple(sc.shape) == (len(G), 1) and not E.is_special(sc.c[0, 0])
        pr.prove(z3.BoolVal(bool(ok_sc)), f'{attack}/{sfname}: the score of the expected key is a number (the undefined statistic at the constant sample is ignored by the discriminant)', wit('score-defined', G[0]), sample=False)

        def stat(gi):
            """(numerator, positive denominator) of the quantity that ranks the guesses: squared statistic, sqrt-free."""
            t = results.c[gi, 0, 0]
            if not E.is_sym(t):
                return (E.R(t) * E.R(t) if attack in ('CPAAttack', 'DPAAttack') else E.R(t)), z3.RealVal(1), []
            num, den = L.ratform(E.R(t))
            if attack == 'CPAAttack':
                den2 = L.eliminate_sqrt_square(den)
                return num * num, den2, []
            if attack == 'DPAAttack':
                return num * num, den * den, []
            return num, den, [den]
        if E.is_special(results.c[0, 0, 0]):
            pr.prove(z3.BoolVal(False), f'{attack}/{sfname}: the statistic of the expected key at the leaking sample is a number (it is {results.c[0, 0, 0]})', wit('statistic-defined', G[0]))
            return
        n0, d0, pos0 = stat(0)
        for c_ in pos0:
            pr.prove(c_ > 0, f'{attack}/{sfname}: the denominator of the expected key\'s statistic is positive for all noise in the box', wit('denominator', G[0]), sample=False)
        for gi in range(1, len(G)):
            ng, dg, posg = stat(gi)
            tg = results.c[gi, 0, 0]
            if E.is_special(tg):
                continue                      # undefined statistic for that guess (e.g. empty class): it cannot win
            for c_ in posg:
                pr.prove(c_ > 0, f'{attack}/{sfname}: denominator of guess {G[gi]} positive for all noise in the box', wit('denominator', G[gi]), sample=False)
            if d0 is None or dg is None:
                pr.prove(z3.BoolVal(False), 'statistic is not a ratio with a product of standard deviations as denominator', wit('shape'))
                return
            Pdiff = n0 * dg - ng * d0
            if monomial_bound_positive(Pdiff, EPSA) is True:
                # z3 proved the linear relaxation (monomials as independent bounded variables): positive on the whole box
                res['obligations'] += 1
                res['nontrivial'] += 1
                res['discharged'] += 1
                res['queries'] += 1
                res['notes'].append(f'guess {G[gi]:#x}: discharged by z3 on the linear relaxation of the expanded polynomial') if len(res['notes']) < 2 else None
                continue
            pr.prove(z3.simplify(Pdiff, som=True) > 0,
                     f'{attack} / {sfname} ({cipher}-{klen * 8 if cipher == "aes" else 64}): statistic(expected key {ekw:#x}) > statistic(guess {G[gi]:#x}) for ALL noise vectors e in [-{EPSA},{EPSA}]^{nd} (cross-multiplied)',
                     wit('ranking', G[gi]), sample=(gi == 1))
            if res['failures']:
                return
    explore(res, body, max_paths=8, timeout_ms=60000, exact=True)
    return res


def replay(w):
    import numpy as np
    import scared
    from scared import traces as tr
    inst = instance(w['cipher'], w['sf'], w['klen'], w['seed'])
    T = len(inst['texts'])
    dpa = w['attack'].startswith('DPA')
    value_model = w.get('model') == 'value'
    leak = np.array([(v & 1) if dpa else (v if value_model else hw(v)) for v in inst['inter']], dtype='float64')
    ea = EPSS[w['attack']]
    nd_ = DIMS[w['attack']]
    pad = lambda v: (list(v) + [0.0] * NOISE_DIM)[:NOISE_DIM]  # noqa: E731
    tries = [pad(w.get('noise') or []), [0.0] * NOISE_DIM, pad([ea] * nd_), pad([-ea, ea, -ea, ea][:nd_])]
    sfmod = scared.aes.selection_functions.encrypt if w['cipher'] == 'aes' else scared.des.selection_functions.encrypt
    G = w['guesses']
    ww = inst['w']
    for noise in tries:
        x = np.stack([leak + sum(noise[j] * np.array(inst['basis'][j]) for j in range(NOISE_DIM)), np.zeros(T)], axis=1)
        sf = getattr(sfmod, w['sf'])(guesses=np.array(G, dtype='uint8'), words=[ww])
        model = scared.Monobit(0) if dpa else (scared.Value() if value_model else scared.HammingWeight())
        kw = dict(selection_function=sf, model=model, discriminant=scared.maxabs, precision='float64')
        if w['attack'][:3] in ('NIC', 'SNR', 'ANO'):
            kw['partitions'] = list(range(9))
        an = getattr(scared, w['attack'])(**kw)
        ths = tr.read_ths_from_ram(samples=x, **{inst['tag']: np.array(inst['texts'], dtype='uint8'), 'key': np.array([inst['key']] * T, dtype='uint8')})
        scared.set_batch_size(T // 2)
        try:
            with np.errstate(all='ignore'):
                an.run(scared.Container(ths))
        finally:
            scared.set_batch_size(None)
        scores = np.array(an.scores).reshape(len(G))
        ek = int(np.array(sf.compute_expected_key(key=np.array(inst['key'], dtype='uint8')))[ww])
        if np.isnan(scores).all():
            return dict(reproduced=True, detail=f'{w["attack"]} / {w["sf"]} ({w["cipher"]}, noise {noise}): every score is NaN ({scores.tolist()})')
        best = int(np.nanargmax(scores))
        if G[best] != ek or np.sum(scores == scores[best]) > 1:
            return dict(reproduced=True, detail=f'{w["attack"]} / {w["sf"]} ({w["cipher"]}, {w["klen"]}-byte key, noise {noise}): best guess {G[best]:#x} (scores {scores.tolist()}) but the expected-key function gives {ek:#x} (true round-key word {inst["true_word"]:#x})')
    return dict(reproduced=False, detail='the expected key is ranked first on the model noise and on the corner noise vectors')
