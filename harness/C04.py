"""C04 - ANOVA / NICV / SNR equal their definitions over value classes (DESIGN.md section 5, C04)."""
import math
import itertools
import numpy as rnp
import z3

from vp import symnp as S, elem as E
from vp.elem import CTX
from vp.run import new_result
from harness.common import explore, prove_identity, is_identity
from harness import statlib as L
from harness.statlib import Fraction

ID = 'C04'
LEVEL = 'model_checking'
META = dict(
    functions=['scared.distinguishers.partitioned:_PartitionnedDistinguisherBaseMixin._initialize/_update', 'scared.distinguishers.partitioned:_build_lut', 'scared.distinguishers.partitioned:_define_lut_func',
               'scared.distinguishers.partitioned:PartitionedDistinguisherMixin._accumulate/_accumulate_core_1/_accumulate_core_2/_compute',
               'scared.distinguishers.partitioned:ANOVADistinguisherMixin._compute_metric', 'scared.distinguishers.partitioned:NICVDistinguisherMixin._compute_metric',
               'scared.distinguishers.partitioned:SNRDistinguisherMixin._compute_metric', 'scared.distinguishers.base:DistinguisherMixin.update/compute'],
    bounds=dict(quick='n = 4 traces in two batches (kernel 1 then kernel 2), 2 samples; every assignment of the 4 intermediate values over {0, 1, 2, undeclared 7} '
                      '(one word) and a set of 2-word assignments; class sets [0,1,2] explicit and automatic (first-batch maximum 2, 8 -> 9 classes; 9, 63 -> 64 classes; 64, 255 -> 256 classes); traces symbolic reals; precision float64 and float32',
                thorough='n = 5'),
    assumptions=['floats are exact reals (rounding at the requested precision abstracted)', 'class patterns are explored by forking (concrete labels per path), trace values are symbolic'],
    outside=['more than 5 traces per query', 'class sets above 9 classes with symbolic traces (covered structurally by C11 / C12)'],
    stubs=['time.process_time: symbolic non-decreasing clock', 'numba kernels interpreted in numba mode'],
)
UND = 7


def prepare(tier, seed):
    L.load_distinguishers()


def jobs(tier, seed):
    js = []
    n = 4 if tier == 'quick' else 5
    for cls in ('ANOVADistinguisher', 'NICVDistinguisher', 'SNRDistinguisher'):
        for mode in ('explicit', 'auto'):
            for p in ('float64', 'float32'):
                if p == 'float64' or tier == 'thorough':
                    for first in range(4 if mode == 'explicit' else 3):
                        js.append(dict(name=f'{cls}-{mode}-{p}-n{n}-v{first}', cls=cls, mode=mode, p=p, n=n, first=first, words=1))
                js.append(dict(name=f'{cls}-{mode}-{p}-n{n}-2words', cls=cls, mode=mode, p=p, n=n, first=None, words=2))
        # automatic class sets at the documented thresholds: a first batch whose maximum is exactly 8 / 9 / 63 / 64 / 255
        for top in (8, 9, 63, 64, 255):
            js.append(dict(name=f'{cls}-auto-top{top}-float64-n{n}', cls=cls, mode='auto', p='float64', n=n, first=0, words=1, top=top))
    return js


def oracle(kind, groups):
    """groups: list of lists of z3 real terms (non-empty classes). Returns (num, den, defined?) as rational normal form pieces."""
    k = len(groups)
    allx = [x for g in groups for x in g]
    N = len(allx)
    if N == 0:
        return None
    m = z3.Sum(allx) / N
    means = [z3.Sum(g) / len(g) for g in groups]
    if kind == 'ANOVA':
        if k <= 1 or N == k:
            return None
        between = z3.Sum([len(g) * (mc - m) * (mc - m) for g, mc in zip(groups, means)]) / (k - 1)
        within = z3.Sum([(x - mc) * (x - mc) for g, mc in zip(groups, means) for x in g]) / (N - k)
        return between, within
    if kind == 'NICV':
        num = z3.Sum([Fraction(len(g), N).numerator * (mc - m) * (mc - m) / Fraction(len(g), N).denominator for g, mc in zip(groups, means)])
        tot = z3.Sum([x * x for x in allx]) / N - m * m
        return num, tot
    if kind == 'SNR':
        num = z3.Sum([(mc - m) * (mc - m) for mc in means]) / k
        den = z3.Sum([z3.Sum([x * x for x in g]) / len(g) - mc * mc for g, mc in zip(groups, means)]) / k
        return num, den


def run_job(job):
    res = new_result(job['name'])
    clsname, mode, p, n, Wn = job['cls'], job['mode'], job['p'], job['n'], job['words']
    kind = clsname.replace('Distinguisher', '')
    S_ = 2
    dom = [0, 1, 2, UND] if mode == 'explicit' else [0, 1, 2]
    top = job.get('top')
    if top is not None:
        dom = [top, 0, 3]                  # trace 0 (first batch) carries the maximum
    auto_declared = list(range(9 if (top is None or top < 9) else (64 if top < 64 else 256)))
    P = L.MODS['partitioned']
    two_word_patterns = [([0, 0, 1, 1], [0, 1, 2, UND if mode == 'explicit' else 2]), ([1, 1, 1, 1], [0, 1, 0, 1]), ([0, 1, 2, 0], [2, 2, 0, 0]),
                         ([UND if mode == 'explicit' else 0, 0, 0, 1], [1, 2, 1, 2])]

    def body(ex, pr):
        L.CLOCK.reset()
        if Wn == 1:
            lab = [[job['first']]] + [[dom[ex.choose(len(dom))]] for _ in range(n - 1)]
            lab[0][0] = dom[job['first']]
        else:
            pat = two_word_patterns[ex.choose(len(two_word_patterns))]
            lab = [[pat[0][i % 4], pat[1][i % 4]] for i in range(n)]
        y = S.const(rnp.array(lab, dtype='uint8'))
        x = S.sym_real('x', (n, S_), 'float64' if p == 'float64' else 'uint8')
        if p != 'float64':
            # integer traces: values are those of the dtype, and arithmetic carried out in an integer dtype must not leave it (it would wrap)
            CTX.int_range = True
            for v in S.terms(x):
                ex.assume(z3.And(E.R(v) >= 0, E.R(v) <= 255))
        d = getattr(P, clsname)(partitions=[0, 1, 2] if mode == 'explicit' else None, precision=p)
        k = n // 2
        d.update(x[:k], y[:k])
        mark = len(CTX.side)
        b0 = L.snapshot(d)
        d.compute()                      # result requested between batches: must not influence anything later
        changed = L.same_snapshot(b0, L.snapshot(d))
        del CTX.side[mark:]
        d.update(x[k:], y[k:])
        b1 = L.snapshot(d)
        out = d.compute()
        changed += L.same_snapshot(b1, L.snapshot(d))
        ok = tuple(out.shape) == (Wn, S_) and d.processed_traces == n

        def wit(what, w=None, s=None):
            return lambda m: dict(kind='part', cls=clsname, mode=mode, precision=p, split=k, labels=lab, top=top, what_failed=what, word=w, sample=s, x=L.model_values(m, x),
                                  key=dict(kind='part', cls=clsname, what=what))
        pr.prove(z3.BoolVal(not changed), f'{clsname}: compute() leaves every accumulator unchanged (changed: {changed})', wit('compute-mutates-state'))
        pr.prove(z3.BoolVal(ok), f'{clsname}: result shape (words, samples) = {(Wn, S_)}, processed_traces = {n}', wit('layout'))
        if not ok or changed:
            return
        declared = [0, 1, 2] if mode == 'explicit' else auto_declared
        entries = []
        for w in range(Wn):
            for s in range(S_):
                groups = [[E.R(x.c[i, s]) for i in range(n) if lab[i][w] == c] for c in declared]
                groups = [g for g in groups if g]
                orc = oracle(kind, groups)
                defined = orc is not None and not E.identically_zero(orc[1])
                entries.append((w, s, orc, defined))
        # regular regime: the oracle's denominators are non-zero (they are sums of squares: > 0)
        for (w, s, orc, defined) in entries:
            if defined:
                ex.assume(orc[1] > 0)
        res['twins'] += 1
        if ex.feasible():
            res['twins_ok'] += 1
        for (w, s, orc, defined) in entries:
            e = out.c[w, s]
            desc = f'{clsname}({mode} classes, precision={p}) labels {[r[w] for r in lab]} word {w} sample {s}'
            if not defined:
                pr.prove(z3.BoolVal(E.is_special(e) and e != e), desc + ': statistic undefined => NaN (never infinite or finite)', wit('degenerate-not-nan', w, s))
                continue
            if E.is_special(e):
                pr.prove(z3.BoolVal(False), desc + ': defined statistic must be finite', wit('regular-special', w, s))
                continue
            marks = L.round_marks(E.R(e))
            if marks:
                pr.prove(z3.BoolVal(False), desc + f': computed through {marks}', wit('rounding-mark', w, s))
                continue
            num, den = L.ratform(E.R(e))
            on, od = L.ratform(orc[0] / orc[1])
            prove_identity(pr, num * od == on * den, desc + f' == {kind} definition over the non-empty declared classes', wit('value', w, s), sample=(w == 0 and s == 0))
        if res['failures']:
            return
        seen = set()
        for kind_, cond in CTX.side:
            if cond.get_id() in seen:
                continue
            seen.add(cond.get_id())
            pr.prove(cond, f'side condition {kind_} holds wherever the statistic is defined', wit('side-' + kind_), sample=False)
    explore(res, body, max_paths=3000, timeout_ms=20000, precision=rnp.dtype(p), exact=True)
    return res


def _exact(kind, xs, labels, declared):
    groups = [[Fraction(x) for x, l in zip(xs, labels) if l == c] for c in declared]
    groups = [g for g in groups if g]
    k = len(groups)
    allx = [x for g in groups for x in g]
    N = len(allx)
    if N == 0:
        return math.nan
    m = sum(allx) / N
    means = [sum(g) / len(g) for g in groups]
    if kind == 'ANOVA':
        if k <= 1 or N == k:
            return math.nan
        num = sum(len(g) * (mc - m) ** 2 for g, mc in zip(groups, means)) / (k - 1)
        den = sum((x - mc) ** 2 for g, mc in zip(groups, means) for x in g) / (N - k)
    elif kind == 'NICV':
        num = sum(Fraction(len(g), N) * (mc - m) ** 2 for g, mc in zip(groups, means))
        den = sum(x * x for x in allx) / N - m * m
    else:
        num = sum((mc - m) ** 2 for mc in means) / k
        den = sum(sum(x * x for x in g) / len(g) - mc * mc for g, mc in zip(groups, means)) / k
    if den == 0:
        return math.nan
    return float(num / den)


def replay(w):
    import random
    import numpy as np
    import scared
    cls = getattr(scared.distinguishers.partitioned, w['cls'])
    kind = w['cls'].replace('Distinguisher', '')
    lab = np.array(w['labels'], dtype='uint8')
    x0 = L.to_numpy(w['x'])
    rnd = random.Random(11)
    tries = [x0] + [np.array([rnd.randrange(1, 200) for _ in range(x0.size)], dtype=x0.dtype).reshape(x0.shape) for _ in range(6)]
    top = w.get('top')
    declared = [0, 1, 2] if w['mode'] == 'explicit' else list(range(9 if (top is None or top < 9) else (64 if top < 64 else 256)))
    tol = 2e-4 if w['precision'] == 'float32' else 1e-9
    for X in tries:
        d = cls(partitions=[0, 1, 2] if w['mode'] == 'explicit' else None, precision=w['precision'])
        k = w['split']
        try:
            with np.errstate(all='ignore'):
                d.update(X[:k], lab[:k])
                d.compute()
                d.update(X[k:], lab[k:])
                snap = {a: np.array(v, copy=True) for a, v in vars(d).items() if isinstance(v, np.ndarray)}
                out = np.array(d.compute())
                for a, v in snap.items():
                    if not np.array_equal(v, getattr(d, a), equal_nan=True):
                        return dict(reproduced=True, detail=f'{w["cls"]}: compute() changed accumulator {a} (traces {X.tolist()}, labels {lab.tolist()})')
        except Exception as ex:
            return dict(reproduced=True, detail=f'{w["cls"]} raised {type(ex).__name__}: {ex}')
        if out.shape != (lab.shape[1], X.shape[1]):
            return dict(reproduced=True, detail=f'result shape {out.shape}')
        for wi in range(lab.shape[1]):
            for s in range(X.shape[1]):
                e = _exact(kind, [Fraction(float(v)) for v in X[:, s]], lab[:, wi].tolist(), declared)
                g = float(out[wi, s])
                if (e != e) != (g != g) or (e == e and abs(g - e) > tol * max(1.0, abs(e))):
                    return dict(reproduced=True, detail=f'{w["cls"]}({w["mode"]}, precision={w["precision"]}) traces={X.tolist()} labels={lab.tolist()} split {k}: word {wi} sample {s} = {g!r}, definition gives {e!r}')
    return dict(reproduced=False, detail='real code agrees with the definitions on the model and seeded inputs')
