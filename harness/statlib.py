"""Shared machinery for the statistics harnesses: loading the distinguishers under the shim, rational normal forms of result terms,
square-root elimination, and textbook oracles over z3 reals."""
import math
import fractions
import numpy as rnp
import z3

from vp import loader, symnp as S, elem as E
from vp.elem import CTX

Fraction = fractions.Fraction
MODS = {}


class FakeClock:
    """time.process_time stub: arbitrary non-decreasing symbolic instants (kernel selection becomes a solver-explored branch)."""

    def __init__(self):
        self.n = 0
        self.last = None
        self.mode = 'symbolic'
        self.script = None

    def reset(self, mode='symbolic', script=None):
        self.n = 0
        self.last = None
        self.mode = mode
        self.script = list(script) if script else None

    def process_time(self):
        self.n += 1
        if self.mode == 'concrete':
            return float(self.n)
        t = z3.Real(f'clk{self.n}')
        if self.last is not None and CTX.ex is not None:
            CTX.ex.assume(t >= self.last)
        self.last = t
        return S.from_terms([t], 'float64')[0]


CLOCK = FakeClock()


def load_distinguishers():
    names = ['scared.distinguishers.base', 'scared.distinguishers.cpa', 'scared.distinguishers.dpa', 'scared.distinguishers.partitioned',
             'scared.distinguishers.mia', 'scared.distinguishers.template']
    mods = loader.load(names)
    for n, m in zip(names, mods):
        MODS[n.split('.')[-1]] = m
    MODS['partitioned']._time = CLOCK
    MODS['template']._time = CLOCK
    return MODS


# ---------------------------------------------------------------------------------------------
# rational normal form  t == num / den  (num, den polynomials over the input symbols and sqrt symbols)


def ratform(t):
    """-> (num, den) with t == num/den wherever den != 0; den is 1 for polynomial t."""
    cache = {}

    def go(e):
        k = e.get_id()
        if k in cache:
            return cache[k]
        r = None
        if z3.is_app(e):
            kind = e.decl().kind()
            ch = e.children()
            if kind == z3.Z3_OP_DIV:
                (a, b), (c, d) = go(ch[0]), go(ch[1])
                r = (a * d, b * c)
            elif kind == z3.Z3_OP_ADD:
                num, den = go(ch[0])
                for c_ in ch[1:]:
                    n2, d2 = go(c_)
                    if d2.eq(den):
                        num = num + n2
                    else:
                        num, den = num * d2 + n2 * den, den * d2
                r = (num, den)
            elif kind == z3.Z3_OP_SUB:
                num, den = go(ch[0])
                for c_ in ch[1:]:
                    n2, d2 = go(c_)
                    if d2.eq(den):
                        num = num - n2
                    else:
                        num, den = num * d2 - n2 * den, den * d2
                r = (num, den)
            elif kind == z3.Z3_OP_MUL:
                num, den = go(ch[0])
                for c_ in ch[1:]:
                    n2, d2 = go(c_)
                    num, den = num * n2, den * d2
                r = (num, den)
            elif kind == z3.Z3_OP_UMINUS:
                n1, d1 = go(ch[0])
                r = (-n1, d1)
            elif kind == z3.Z3_OP_TO_REAL:
                r = (e, z3.RealVal(1))
        if r is None:
            r = (e if not (z3.is_arith(e) and e.is_int()) else z3.ToReal(e), z3.RealVal(1))
        cache[k] = r
        return r
    n, d = go(t if z3.is_expr(t) else E.R(t))
    return n, d


def sqrt_syms():
    return {str(s): (s, rad) for s, rad in CTX.sqrts}


def eliminate_sqrt_square(poly):
    """poly**2 with every sqrt symbol's square replaced by its radicand, for poly = (sqrt-free polynomial) * (product of sqrt symbols).
    Returns the sqrt-free square, or None when poly does not have that shape."""
    syms = sqrt_syms()
    p = z3.simplify(poly, som=False)
    factors = []
    stack = [p]
    while stack:
        f = stack.pop()
        if z3.is_app(f) and f.decl().kind() == z3.Z3_OP_MUL:
            stack.extend(f.children())
        else:
            factors.append(f)
    rest = z3.RealVal(1)
    rads = z3.RealVal(1)
    for f in factors:
        if z3.is_const(f) and str(f) in syms:
            rads = rads * syms[str(f)][1]
        else:
            if contains_sqrt(f):
                return None
            rest = rest * f
    return rest * rest * rads


def contains_sqrt(t):
    names = set(sqrt_syms())
    if not names:
        return False
    seen = set()
    stack = [t]
    while stack:
        e = stack.pop()
        if e.get_id() in seen:
            continue
        seen.add(e.get_id())
        if z3.is_const(e) and str(e) in names:
            return True
        stack.extend(e.children())
    return False


def proportional(a, b):
    """Rational c with a == c*b at a seeded point (None when b vanishes there)."""
    for k in range(3):
        va, vb = E.eval_at(a, k), E.eval_at(b, k)
        if va is None or vb is None or isinstance(va, float) or isinstance(vb, float):
            continue
        if vb != 0:
            return Fraction(va) / Fraction(vb)
    return None


def rv(f):
    f = Fraction(f)
    return z3.RealVal(f'{f.numerator}/{f.denominator}')


# ---------------------------------------------------------------------------------------------
# oracles (textbook definitions over z3 reals)


def mean(xs):
    return z3.Sum(xs) / len(xs)


def ssd(xs):
    m = mean(xs)
    return z3.Sum([(x - m) * (x - m) for x in xs])


def cov_sum(xs, ys):
    mx, my = mean(xs), mean(ys)
    return z3.Sum([(x - mx) * (y - my) for x, y in zip(xs, ys)])


def real_terms(arr):
    """Element terms of a shim array as z3 reals."""
    a = S._w(arr)
    return [E.R(E.to_real(x, a.dtype)) if not E.is_special(x) else x for x in a.c.reshape(-1)]


def frac_of_model(m, t):
    v = m.eval(t, model_completion=True)
    if z3.is_rational_value(v):
        return Fraction(v.numerator_as_long(), v.denominator_as_long())
    if z3.is_int_value(v):
        return Fraction(v.as_long())
    if z3.is_algebraic_value(v):
        return Fraction(v.approx(20).as_fraction())
    return Fraction(0)


def model_values(m, arr):
    a = S._w(arr)
    out = []
    for x in a.c.reshape(-1):
        if E.is_sym(x):
            f = frac_of_model(m, E.to_real(x, a.dtype))
            out.append([f.numerator, f.denominator])
        else:
            out.append([int(x), 1] if float(x) == int(x) else [float(x), 1])
    return dict(shape=list(a.shape), dtype=str(a.dtype), values=out)


def to_numpy(spec):
    """witness array spec -> numpy array of its dtype (values rounded into the dtype)."""
    vals = [Fraction(n) / Fraction(d) if not isinstance(n, float) else n for n, d in spec['values']]
    dt = rnp.dtype(spec['dtype'])
    if dt.kind in 'iu':
        info = rnp.iinfo(dt)
        arr = rnp.array([min(max(int(round(float(v))), info.min), info.max) for v in vals], dtype=dt)
    else:
        arr = rnp.array([float(v) for v in vals], dtype=dt)
    return arr.reshape(spec['shape'])


def fr(x):
    return Fraction(float(x)) if not isinstance(x, Fraction) else x


def round_marks(t):
    """Names of the rounding marks (operations carried out in a float type narrower than the requested precision) inside term t."""
    names = set()
    seen = set()
    stack = [t]
    while stack:
        e = stack.pop()
        if e.get_id() in seen:
            continue
        seen.add(e.get_id())
        if z3.is_app(e) and e.decl().kind() == z3.Z3_OP_UNINTERPRETED and e.decl().name().startswith('rnd_'):
            names.add(e.decl().name())
        stack.extend(e.children())
    return sorted(names)


def snapshot(obj):
    """{attribute: flat list of element terms} for every array attribute, plus plain numbers."""
    out = {}
    for k, v in vars(obj).items():
        if S._is_shim(v):
            out[k] = (tuple(v.shape), str(v.dtype), list(v.c.reshape(-1)))
        elif isinstance(v, (int, float, bool)) or v is None:
            out[k] = v
        elif isinstance(v, tuple) and all(isinstance(e, (int, rnp.integer)) for e in v):
            out[k] = ('plain-tuple', tuple(int(e) for e in v))          # shapes kept by the object (e.g. _origin_shape)
    return out


def same_snapshot(a, b):
    """Names of attributes whose value changed (element terms compared structurally)."""
    bad = []
    for k in set(a) | set(b):
        if k not in a or k not in b:
            bad.append(k)
            continue
        va, vb = a[k], b[k]
        if (isinstance(va, tuple) and va and va[0] == 'plain-tuple') or (isinstance(vb, tuple) and vb and vb[0] == 'plain-tuple'):
            if va != vb:
                bad.append(k)
            continue
        if isinstance(va, tuple) and isinstance(vb, tuple):
            if va[0] != vb[0] or va[1] != vb[1] or len(va[2]) != len(vb[2]):
                bad.append(k)
                continue
            for x, y in zip(va[2], vb[2]):
                if E.is_sym(x) or E.is_sym(y):
                    if not (E.is_sym(x) and E.is_sym(y) and (x.eq(y) or z3.is_true(z3.simplify(x == y)))):
                        bad.append(k)
                        break
                elif not (x == y or (x != x and y != y)):
                    bad.append(k)
                    break
        elif va != vb:
            bad.append(k)
    return sorted(bad)
