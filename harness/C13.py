"""C13 - MIA result is the mutual information between binned samples and value classes (DESIGN.md section 5, C13)."""
import math
import itertools
import numpy as rnp
import z3

from vp import symnp as S, elem as E
from vp.elem import CTX
from vp.run import new_result
from harness.common import explore
from harness import statlib as L

ID = 'C13'
LEVEL = 'model_checking'
META = dict(
    functions=['scared.distinguishers.mia:MIADistinguisherMixin.bin_edges (setter)', 'scared.distinguishers.mia:MIADistinguisherMixin._accumulate_core', 'scared.distinguishers.mia:MIADistinguisherMixin._compute_pdf',
               'scared.distinguishers.mia:MIADistinguisherMixin._compute', 'scared.distinguishers.mia:MIADistinguisherMixin._accumulate'],
    bounds=dict(quick='(a) bin_edges setter on 3, 4 and 5 symbolic real edges: every accepting path implies strictly increasing, equally spaced edges (tolerance 1e-9); '
                      '(b) binning of one symbolic real sample against uniform edge sets [0,2,4,6], [-4,0,4], [10,11,12,13,14], [0,0.5,1]: the counted bin k satisfies e_k <= x < e_k+1 (last edge inclusive), no count outside; '
                      '(c) _compute on every count table with <= 4 counted traces over 3 bins x 2 classes (plus discarded traces): equals H(B) - H(B|V) in nats, >= 0, zero for product tables',
                thorough='(c) up to 6 traces with 2 classes, 5 traces with 3 classes'),
    assumptions=['(a), (b): symbolic execution with z3 deciding path feasibility and the obligations; (c): bounded exhaustive enumeration of count tables pushed through the real _compute (concrete evaluation)',
                 'exact arithmetic for (x - min) * norm (edge sets whose norm is exactly representable)'],
    outside=['float edge sets where (x - min) * norm rounds across an edge', 'more than 5 traces in (c)'],
    stubs=['numba kernel interpreted; int() = truncation toward zero'],
)
EDGESETS = [[0, 2, 4, 6], [-4, 0, 4], [10, 11, 12, 13, 14], [0, 0.5, 1.0], [0.5, 2.5, 4.5, 6.5]]


def prepare(tier, seed):
    L.load_distinguishers()


def jobs(tier, seed):
    js = [dict(name=f'setter-{k}edges', kind='setter', k=k) for k in (3, 4, 5)]
    # edges handed over as an unsigned integer array (kept in its own dtype by the setter: differences wrap)
    js += [dict(name=f'setter-{k}edges-uint8', kind='setter', k=k, dt='uint8') for k in (3, 4)]
    js += [dict(name=f'binning-{i}', kind='bin', edges=e) for i, e in enumerate(EDGESETS)]
    # integer traces are binned over the very same (possibly fractional) edges
    js += [dict(name=f'binning-{i}-{dt}', kind='bin', edges=e, dt=dt) for i, e in enumerate(EDGESETS) for dt in ('uint8', 'int16') if i in (0, 3, 4)]
    js += [dict(name=f'compute-n{n}', kind='compute', n=n, K=2) for n in range(1, 5 if tier == 'quick' else 7)]
    if tier == 'thorough':
        js += [dict(name=f'compute-n{n}-K3', kind='compute', n=n, K=3) for n in (4, 5)]
    return js


def job_setter(job, res):
    k = job['k']
    M = L.MODS['mia']

    def body(ex, pr):
        if job.get('dt'):
            e = S.sym_bv('e', (k,), job['dt'])
            terms = [z3.ToReal(z3.BV2Int(t)) for t in S.terms(e)]
        else:
            e = S.sym_real('e', (k,), 'float64')
            terms = [E.R(t) for t in S.terms(e)]
        accepted = True
        try:
            d = M.MIADistinguisher(bin_edges=e, partitions=[0, 1])
        except (ValueError, TypeError):
            accepted = False
        res['paths_accepting'] = res.get('paths_accepting', 0) + int(accepted)
        if not accepted:
            return
        inc = z3.And(*[terms[i] < terms[i + 1] for i in range(k - 1)])
        tol = E.R(1e-9)
        sd = [terms[i + 2] - 2 * terms[i + 1] + terms[i] for i in range(k - 2)]
        uni = z3.And(*[z3.And(s_ <= tol, s_ >= -tol) for s_ in sd]) if sd else z3.BoolVal(True)
        pr.prove(z3.And(inc, uni), f'bin_edges setter accepts {k} edges only if they are strictly increasing and equally spaced (second differences within 1e-9)',
                 lambda m: dict(kind='setter', dt=job.get('dt'), edges=[float(L.frac_of_model(m, t)) for t in terms], key=dict(kind='setter')))
        pr.prove(z3.BoolVal(d.bins_number == k - 1), 'accepted edges define len(edges) - 1 bins', lambda m: dict(kind='setter', edges=[float(L.frac_of_model(m, t)) for t in terms], key=dict(kind='setter-bins')))
    explore(res, body, max_paths=400, timeout_ms=20000, exact=True)
    res['obligations'] += 1
    res['nontrivial'] += 1
    if res.pop('paths_accepting', 0) >= 1:
        res['discharged'] += 1       # reachability: some edge list is accepted
    else:
        res['unknown'].append('no accepting path: the setter refuses everything (vacuous)')


def job_bin(job, res):
    edges = job['edges']
    M = L.MODS['mia']
    nb = len(edges) - 1

    def body(ex, pr):
        d = M.MIADistinguisher(bin_edges=list(edges), partitions=[0, 1])
        dt = job.get('dt', 'float64')
        if dt == 'float64':
            x = S.sym_real('x', (1, 1), 'float64')
        else:
            x = S.sym_int('x', (1, 1), dt)
            E.register(x.c[0, 0], [1, 3, 6])
            ii = rnp.iinfo(dt)
            ex.assume(z3.And(x.c[0, 0] >= int(ii.min), x.c[0, 0] <= int(ii.max)))
        y = S.const(rnp.array([[1]], dtype='uint8'))
        d.update(x, y)
        acc = d.accumulators.typed() if not d.accumulators.sym else None
        xt = E.R(x.c[0, 0]) if dt == 'float64' else z3.ToReal(x.c[0, 0])
        ed = [E.R(v) for v in edges]

        def wit(m):
            return dict(kind='bin', edges=edges, dt=dt, x=float(L.frac_of_model(m, xt)), xfrac=[L.frac_of_model(m, xt).numerator, L.frac_of_model(m, xt).denominator], key=dict(kind='bin'))
        if acc is None:
            pr.prove(z3.BoolVal(False), 'accumulators stay concrete counts', wit)
            return
        total = int(acc.sum())
        hits = [(b, c) for b in range(nb) for c in range(2) if acc[0, b, c, 0] != 0]
        if total == 0:
            pr.prove(z3.Or(xt < ed[0], xt > ed[-1]), f'edges {edges}: a sample that is not counted lies outside [first edge, last edge]', wit, sample=False)
            return
        ok = total == 1 and len(hits) == 1 and hits[0][1] == 1 and acc[0, hits[0][0], 1, 0] == 1
        pr.prove(z3.BoolVal(bool(ok)), f'edges {edges}: one sample increments exactly one (bin, class) counter by one, in the class of its value', wit, sample=False)
        if ok:
            b = hits[0][0]
            inside = z3.And(xt >= ed[b], xt < ed[b + 1]) if b < nb - 1 else z3.And(xt >= ed[b], xt <= ed[b + 1])
            pr.prove(inside, f'edges {edges}: the sample counted in bin {b} satisfies e_{b} <= x < e_{b + 1} (right-most edge inclusive)', wit)
    explore(res, body, max_paths=200, timeout_ms=20000, exact=True)


def mi_oracle(tab):
    """tab[b][c] counts -> H(B) - H(B|V) in nats."""
    N = sum(sum(r) for r in tab)
    if N == 0:
        return 0.0
    nb, nc = len(tab), len(tab[0])
    pb = [sum(tab[b]) / N for b in range(nb)]
    hb = -sum(p * math.log(p) for p in pb if p > 0)
    hbv = 0.0
    for c in range(nc):
        nc_ = sum(tab[b][c] for b in range(nb))
        if nc_ == 0:
            continue
        hbv += (nc_ / N) * -sum((tab[b][c] / nc_) * math.log(tab[b][c] / nc_) for b in range(nb) if tab[b][c] > 0)
    return hb - hbv


def tables(n, nb, K):
    cells = nb * K
    for combo in itertools.combinations_with_replacement(range(cells), n):
        tab = [[0] * K for _ in range(nb)]
        for c in combo:
            tab[c // K][c % K] += 1
        yield tab


def job_compute(job, res):
    n, K = job['n'], job['K']
    M = L.MODS['mia']
    nb = 3

    def body(ex, pr):
        for tab in tables(n, nb, K):
            for discarded in (0, 2):
                d = M.MIADistinguisher(bin_edges=[0, 2, 4, 6], partitions=list(range(K)))
                d._trace_length, d._data_words = 1, 1
                d._origin_shape = (n + discarded, 1)
                d.accumulators = S.const(rnp.array(tab, dtype='uint32').reshape(1, nb, K, 1))
                d.processed_traces = n + discarded          # traces outside the edges are processed but not counted
                out = d.compute()
                got = float(S._w(out).typed().reshape(-1)[0])
                exp = mi_oracle(tab)
                prod = all(tab[b][c] * n == sum(tab[b]) * sum(tab[bb][c] for bb in range(nb)) for b in range(nb) for c in range(K))
                ok = abs(got - exp) <= 1e-9 and got >= -1e-12 and (not prod or abs(got) <= 1e-12)
                pr.prove(z3.BoolVal(bool(ok)), f'MIA compute on counts {tab} ({discarded} discarded traces) == H(B) - H(B|V) = {exp:.6f} nats (got {got:.6f}); >= 0; zero when bins and classes are independent',
                         lambda m, tab=tab, discarded=discarded: dict(kind='compute', table=tab, discarded=discarded, K=K, key=dict(kind='compute')), sample=(tab == [[1, 0], [0, 1], [0, 0]]))
    explore(res, body, max_paths=4, timeout_ms=20000)


def run_job(job):
    res = new_result(job['name'])
    {'setter': job_setter, 'bin': job_bin, 'compute': job_compute}[job['kind']](job, res)
    return res


def replay(w):
    import numpy as np
    import scared
    from fractions import Fraction
    if w['kind'] == 'setter':
        e = w['edges']
        try:
            scared.MIADistinguisher(bin_edges=(np.array([int(v) for v in e], dtype=w['dt']) if w.get('dt') else list(e)))
        except (ValueError, TypeError):
            return dict(reproduced=False, detail=f'real code refuses {e}')
        inc = all(a < b for a, b in zip(e, e[1:]))
        uni = all(abs(e[i + 2] - 2 * e[i + 1] + e[i]) <= 1e-9 for i in range(len(e) - 2))
        return dict(reproduced=not (inc and uni), detail=f'bin_edges={e} accepted although increasing={inc}, uniform={uni}')
    if w['kind'] == 'bin':
        edges = w['edges']
        xs = [float(Fraction(*w['xfrac']))]
        d = scared.MIADistinguisher(bin_edges=list(edges), partitions=[0, 1])
        x = np.array([[xs[0]]], dtype=w.get('dt', 'float64'))
        d.update(x, np.array([[1]], dtype='uint8'))
        acc = d.accumulators[0, :, :, 0]
        nb = len(edges) - 1
        exp = np.zeros_like(acc)
        for b in range(nb):
            if (edges[b] <= xs[0] < edges[b + 1]) or (b == nb - 1 and xs[0] == edges[-1]):
                exp[b, 1] = 1
        return dict(reproduced=not np.array_equal(acc, exp), detail=f'edges {edges}, sample {xs[0]}: counters {acc.tolist()} expected {exp.tolist()}')
    if w['kind'] == 'compute':
        tab, K = w['table'], w['K']
        n = sum(sum(r) for r in tab)
        d = scared.MIADistinguisher(bin_edges=[0, 2, 4, 6], partitions=list(range(K)))
        d._trace_length, d._data_words = 1, 1
        d._origin_shape = (n + w['discarded'], 1)
        d.accumulators = np.array(tab, dtype='uint32').reshape(1, 3, K, 1)
        d.processed_traces = n + w['discarded']
        with np.errstate(all='ignore'):
            got = float(np.array(d.compute()).reshape(-1)[0])
        exp = mi_oracle(tab)
        return dict(reproduced=abs(got - exp) > 1e-9, detail=f'counts {tab} with {w["discarded"]} discarded: MIA = {got!r}, H(B)-H(B|V) = {exp!r}')
    return dict(reproduced=False, detail='n/a')
