"""C16 - a rejected update leaves a distinguisher exactly as it was (DESIGN.md section 5, C16)."""
import numpy as rnp
import z3

from vp import symnp as S, elem as E
from vp.elem import CTX
from vp.run import new_result
from harness.common import explore
from harness import statlib as L

ID = 'C16'
LEVEL = 'model_checking'
META = dict(
    functions=['scared.distinguishers.base:DistinguisherMixin.update/_check', 'scared.distinguishers.cpa:CPADistinguisherMixin._initialize/_update', 'scared.distinguishers.dpa:DPADistinguisherMixin._initialize/_update',
               'scared.distinguishers.partitioned:_PartitionnedDistinguisherBaseMixin._initialize/_update', 'scared.distinguishers.mia:MIADistinguisherMixin',
               'scared.distinguishers.template:_TemplateBuildDistinguisherMixin._check', 'scared.distinguishers.template:_BaseTemplateAttackDistinguisherMixin._initialize/_update'],
    bounds=dict(quick='9 distinguishers x every rejection kind that applies (row-count mismatch, trace length change, word count change, 3-D / 1-D / text traces, non-array arguments, DPA data outside {0,1}, '
                      'automatic classes with a value above 255, template data with two words, matching before build), inserted as the very first call and after an accepted batch '
                      'whose trace values are symbolic; followed by an accepted batch and compute()',
                thorough='same with three accepted batches before the rejection'),
    assumptions=['only calls that raise are rejections: a call that is (wrongly or rightly) accepted is outside this property',
                 'the accumulated state is the result of symbolic batches, so the frame condition is checked for arbitrary accumulator contents of that shape'],
    outside=['exceptions raised in the middle of an accumulation kernel (no such path exists for valid dtypes)'],
    stubs=['time.process_time: symbolic clock', 'numba kernels interpreted'],
)
KINDS = ['rows', 'length', 'words', 'traces-3d', 'traces-1d', 'traces-text', 'type-traces', 'type-data', 'dpa-range', 'auto-255', 'auto-bad-dtype', 'template-2words', 'template-auto-2words', 'match-before-build']
DISTS = ['CPA', 'CPAAlt', 'DPA', 'ANOVA', 'SNR-auto', 'NICV', 'MIA', 'TemplateBuild', 'TemplateBuild-auto', 'TemplateMatch', 'TemplateDPAMatch']


def prepare(tier, seed):
    L.load_distinguishers()


def jobs(tier, seed):
    return [dict(name=f'{d}-{pos}', dist=d, pos=pos, pre=(1 if tier == 'quick' else 3)) for d in DISTS for pos in ('first', 'later')]


def make(dist):
    M = L.MODS
    if dist == 'CPA':
        return M['cpa'].CPADistinguisher(precision='float64')
    if dist == 'CPAAlt':
        return M['cpa'].CPAAlternativeDistinguisher(precision='float64')
    if dist == 'DPA':
        return M['dpa'].DPADistinguisher(precision='float64')
    if dist == 'ANOVA':
        return M['partitioned'].ANOVADistinguisher(partitions=[0, 1, 2], precision='float64')
    if dist == 'NICV':
        return M['partitioned'].NICVDistinguisher(partitions=[0, 1, 2], precision='float64')
    if dist == 'SNR-auto':
        return M['partitioned'].SNRDistinguisher(precision='float64')
    if dist == 'MIA':
        return M['mia'].MIADistinguisher(bin_edges=[0, 2, 4, 6], partitions=[0, 1, 2])
    if dist in ('TemplateBuild', 'TemplateBuild-auto'):
        class TB(M['partitioned'].PartitionedDistinguisherBase, M['template']._TemplateBuildDistinguisherMixin):
            pass
        return TB(partitions=[0, 1] if dist == 'TemplateBuild' else None, precision='float64')
    if dist == 'SNR-2cls':
        return M['partitioned'].SNRDistinguisher(partitions=[0, 1], precision='float64')
    if dist in ('TemplateMatch', 'TemplateDPAMatch'):
        class TM(M['template'].TemplateAttackDistinguisherMixin if dist == 'TemplateMatch' else M['template'].TemplateDPADistinguisherMixin):
            pass
        o = TM(partitions=[0, 1], precision='float64')
        o.is_build = True
        o.templates = S.sym_real('tpl', (2, 2), 'float64')
        o.pooled_covariance = S.sym_real('cov', (2, 2), 'float64')
        o.pooled_covariance_inv = S.sym_real('icov', (2, 2), 'float64')
        return o
    raise KeyError(dist)


def good_batch(dist, tag, rows=2):
    """A valid batch: symbolic traces (concrete for MIA), data of the right kind."""
    if dist == 'MIA':
        x = S.const(rnp.array([[1, 5], [3, 0], [2, 2]][:rows], dtype='uint8'))
    else:
        x = S.sym_real('x' + tag, (rows, 2), 'float64')
    if dist in ('CPA', 'CPAAlt'):
        y = S.sym_real('y' + tag, (rows, 2), 'uint8')
    elif dist == 'DPA':
        y = S.const(rnp.array([[0, 1], [1, 1], [1, 0]][:rows], dtype='uint8'))
    elif dist in ('TemplateBuild', 'TemplateBuild-auto'):
        y = S.const(rnp.array([[0], [1], [1]][:rows], dtype='uint8'))
    elif dist == 'TemplateMatch':
        y = S.const(rnp.array([[0], [1], [0]][:rows], dtype='uint8'))
    elif dist == 'TemplateDPAMatch':
        y = S.const(rnp.array([[0, 1], [1, 1], [0, 0]][:rows], dtype='uint8'))          # one hypothesis value per guess
    else:
        y = S.const(rnp.array([[0, 1], [2, 1], [1, 1]][:rows], dtype='uint8'))
    return x, y


def bad_call(dist, kind, pos):
    """Arguments of a call of this rejection kind, or None when the kind does not apply."""
    x, y = good_batch(dist, 'bad')
    if kind == 'rows':
        return x, y[:1]
    if kind == 'length':
        if pos == 'first':
            return None
        return (S.sym_real('xb', (2, 3), 'float64') if dist != 'MIA' else S.const(rnp.array([[1, 2, 3], [3, 2, 1]], dtype='uint8'))), y
    if kind == 'words':
        if pos == 'first' or dist in ('TemplateBuild', 'TemplateMatch'):
            return None
        if dist == 'TemplateDPAMatch':
            return x, S.const(rnp.array([[0, 1, 1], [1, 0, 1]], dtype='uint8'))      # 3 hypothesis words after 2
        if dist in ('CPA', 'CPAAlt'):
            return x, S.sym_real('ybad', (2, 3), 'uint8')      # 3 words after 2: not broadcastable, numpy refuses inside _update
        if dist == 'DPA':
            return x, S.const(rnp.array([[0, 1, 1], [1, 1, 0]], dtype='uint8'))
        return x, S.const(rnp.array([[0, 1, 2], [2, 1, 0]], dtype='uint8'))
    if kind == 'traces-3d':         # passes the length test of the concrete _update when the second dimension matches
        return (S.sym_real('x3', (2, 2, 2), 'float64') if dist != 'MIA' else S.const(rnp.ones((2, 2, 2), dtype='uint8'))), y
    if kind == 'traces-1d':
        return (S.sym_real('x1', (2,), 'float64') if dist != 'MIA' else S.const(rnp.ones((2,), dtype='uint8'))), y
    if kind == 'traces-text':       # an array that cannot be converted to the working precision
        return (S.const(rnp.array([['a', 'b'], ['c', 'd']])), y) if dist in ('CPA', 'CPAAlt', 'DPA') else None
    if kind == 'auto-bad-dtype':
        # automatic classes: the first call passes _initialize (range 0..63 chosen) and is then refused by the class lookup (int64 data)
        return (x, S.const(rnp.array([[0, 60], [1, 1]], dtype='int64'))) if dist == 'SNR-auto' and pos == 'first' else None
    if kind == 'template-auto-2words':
        return (x, S.const(rnp.array([[0, 60], [1, 0]], dtype='uint8'))) if dist == 'TemplateBuild-auto' and pos == 'first' else None
    if kind == 'type-traces':
        return [[1.0, 2.0], [3.0, 4.0]], y
    if kind == 'type-data':
        return x, [[0, 1], [1, 0]]
    if kind == 'dpa-range':
        return (x, S.const(rnp.array([[0, 3], [1, 1]], dtype='uint8'))) if dist == 'DPA' and pos == 'first' else None
    if kind == 'auto-255':
        return (x, S.const(rnp.array([[0, 300], [1, 1]], dtype='uint16'))) if dist == 'SNR-auto' and pos == 'first' else None
    if kind == 'template-2words':
        return (x, S.const(rnp.array([[0, 1], [1, 0]], dtype='uint8'))) if dist == 'TemplateBuild' else None
    if kind == 'match-before-build':
        return (x, y) if dist in ('TemplateMatch', 'TemplateDPAMatch') and pos == 'first' else None
    return None


def run_job(job):
    res = new_result(job['name'])
    dist, pos = job['dist'], job['pos']

    def body(ex, pr):
        for kind in KINDS:
            L.CLOCK.reset()
            args = bad_call(dist, kind, pos)
            if args is None:
                continue
            obj = make(dist)
            ref = make(dist)
            if kind == 'match-before-build':
                obj.is_build = False
            accepted = []
            if pos == 'later':
                for i in range(job['pre']):
                    b = good_batch(dist, f'p{i}')
                    obj.update(*b)
                    ref.update(*b)
                    accepted.append(b)
            before = L.snapshot(obj)
            keys_before = set(vars(obj))
            raised = None
            try:
                obj.update(*args)
            except Exception as e_:
                raised = e_
            desc = f'{dist}: {kind} rejection as {"the very first call" if pos == "first" else "a call after accepted batches"}'
            wit = lambda m, kind=kind: dict(kind='reject', dist=dist, rejection=kind, pos=pos, pre=job['pre'], key=dict(kind='reject', dist=dist, rejection=kind, pos=pos))  # noqa: E731
            if raised is None:
                res['notes'].append(desc + ': the call was accepted (not a rejection)')
                continue
            if isinstance(raised, E.ShimUnsupported):
                res['notes'].append(desc + f': not modelled ({raised}); skipped')          # a limit of the shim, not a refusal by the code
                continue
            changed = L.same_snapshot(before, L.snapshot(obj))
            extra = sorted(set(vars(obj)) - keys_before)
            pr.prove(z3.BoolVal(not changed and not extra), desc + f' ({type(raised).__name__}) leaves every attribute and the processed-trace count unchanged (changed: {changed}, new: {extra})', wit)
            # afterwards the object must behave as if the call had never been made
            if kind == 'match-before-build':
                obj.is_build = True
            nxt = good_batch(dist, 'n')
            ok_after, err = True, None
            try:
                obj.update(*nxt)
                r1 = obj.compute()
            except Exception as e_:
                ok_after, err = False, e_
            ref.update(*nxt)
            r2 = ref.compute()
            same = ok_after and obj.processed_traces == ref.processed_traces and not L.same_snapshot(L.snapshot(ref), L.snapshot(obj)) and \
                not L.same_snapshot({'r': (tuple(S._w(r1).shape), '', list(S._w(r1).c.reshape(-1)))}, {'r': (tuple(S._w(r2).shape), '', list(S._w(r2).c.reshape(-1)))})
            pr.prove(z3.BoolVal(bool(same)), desc + f': a later valid update and compute() give exactly what the accepted batches alone give (error: {type(err).__name__ if err else None}: {err})', wit)
    explore(res, body, max_paths=64, timeout_ms=20000, exact=True)
    return res


def replay(w):
    import random
    import numpy as np
    import scared
    from scared import distinguishers as D
    rnd = random.Random(3)
    dist, kind, pos = w['dist'], w['rejection'], w['pos']

    def mk():
        if dist == 'CPA':
            return D.CPADistinguisher(precision='float64')
        if dist == 'CPAAlt':
            return D.CPAAlternativeDistinguisher(precision='float64')
        if dist == 'DPA':
            return D.DPADistinguisher(precision='float64')
        if dist == 'ANOVA':
            return D.ANOVADistinguisher(partitions=[0, 1, 2], precision='float64')
        if dist == 'NICV':
            return D.NICVDistinguisher(partitions=[0, 1, 2], precision='float64')
        if dist == 'SNR-auto':
            return D.SNRDistinguisher(precision='float64')
        if dist == 'MIA':
            return D.MIADistinguisher(bin_edges=[0, 2, 4, 6], partitions=[0, 1, 2])
        if dist in ('TemplateBuild', 'TemplateBuild-auto'):
            class TB(D.partitioned.PartitionedDistinguisherBase, D.template._TemplateBuildDistinguisherMixin):
                pass
            return TB(partitions=[0, 1] if dist == 'TemplateBuild' else None, precision='float64')
        class TM(D.template.TemplateAttackDistinguisherMixin if dist == 'TemplateMatch' else D.template.TemplateDPADistinguisherMixin):
            pass
        o = TM(partitions=[0, 1], precision='float64')
        o.is_build = kind != 'match-before-build'
        o.templates = np.array([[1., 2.], [3., 1.]])
        o.pooled_covariance = np.array([[2., 0.5], [0.5, 1.]])
        o.pooled_covariance_inv = np.linalg.pinv(o.pooled_covariance)
        return o

    def good(rows=2):
        x = np.array([[rnd.randrange(0, 6) for _ in range(2)] for _ in range(rows)], dtype='uint8' if dist == 'MIA' else 'float64')
        if dist in ('CPA', 'CPAAlt'):
            y = np.array([[rnd.randrange(256) for _ in range(2)] for _ in range(rows)], dtype='uint8')
        elif dist == 'DPA':
            y = np.array([[0, 1], [1, 1], [1, 0]][:rows], dtype='uint8')
        elif dist in ('TemplateBuild', 'TemplateBuild-auto', 'TemplateMatch'):
            y = np.array([[0], [1], [1]][:rows], dtype='uint8')
        elif dist == 'TemplateDPAMatch':
            y = np.array([[0, 1], [1, 1], [0, 0]][:rows], dtype='uint8')
        else:
            y = np.array([[0, 1], [2, 1], [1, 1]][:rows], dtype='uint8')
        return x, y
    x, y = good()
    bad = {'rows': (x, y[:1]), 'traces-3d': (np.ones((2, 2, 2), dtype=x.dtype), y), 'traces-1d': (np.ones((2,), dtype=x.dtype), y), 'traces-text': (np.array([['a', 'b'], ['c', 'd']]), y),
           'length': (np.ones((2, 3), dtype=x.dtype), y), 'words': (x, np.array([[0, 1, 1], [1, 1, 0]], dtype='uint8')),
           'auto-bad-dtype': (x, np.array([[0, 60], [1, 1]], dtype='int64')), 'template-auto-2words': (x, np.array([[0, 60], [1, 0]], dtype='uint8')),
           'type-traces': ([[1.0, 2.0], [3.0, 4.0]], y), 'type-data': (x, [[0, 1], [1, 0]]), 'dpa-range': (x, np.array([[0, 3], [1, 1]], dtype='uint8')),
           'auto-255': (x, np.array([[0, 300], [1, 1]], dtype='uint16')), 'template-2words': (x, np.array([[0, 1], [1, 0]], dtype='uint8')), 'match-before-build': (x, y)}[kind]
    obj, ref = mk(), mk()
    if pos == 'later':
        for _ in range(w.get('pre', 1)):
            b = good()
            obj.update(*b)
            ref.update(*b)

    def snap(o):
        return {k: (np.array(v, copy=True) if isinstance(v, np.ndarray) else v) for k, v in vars(o).items() if isinstance(v, (np.ndarray, int, float, tuple, type(None), bool))}

    def differ(a, b):
        return sorted(k for k in set(a) | set(b) if k not in a or k not in b or not (np.array_equal(a[k], b[k], equal_nan=True) if isinstance(a[k], np.ndarray) or isinstance(b.get(k), np.ndarray) else a[k] == b[k]))
    before = snap(obj)
    try:
        obj.update(*bad)
        return dict(reproduced=False, detail='the call is accepted by the real code')
    except Exception as e_:
        exc = e_
    ch = differ(before, snap(obj))
    if ch:
        return dict(reproduced=True, detail=f'{dist}: after the refused call ({type(exc).__name__}: {exc}) these attributes differ: {ch} (processed_traces {before.get("processed_traces")} -> {obj.processed_traces})')
    if kind == 'match-before-build':
        obj.is_build = True
        ref.is_build = True
    nxt = good()
    try:
        obj.update(*nxt)
        r1 = obj.compute()
    except Exception as e_:
        return dict(reproduced=True, detail=f'{dist}: a valid update after the refused {kind} call fails with {type(e_).__name__}: {e_}')
    ref.update(*nxt)
    r2 = ref.compute()
    if obj.processed_traces != ref.processed_traces or not np.array_equal(np.array(r1), np.array(r2), equal_nan=True):
        return dict(reproduced=True, detail=f'{dist}: results after a refused {kind} call differ from the accepted batches alone')
    return dict(reproduced=False, detail='real code leaves the state untouched')
