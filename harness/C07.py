"""C07 - ready-made AES / DES selection functions against the real cipher states (DESIGN.md section 5, C07)."""
import numpy as rnp
import z3

from vp import loader, symnp as S, elem as E
from vp.elem import CTX
from vp.run import new_result
from ref import fips197 as F, fips46 as D
from harness.common import any_differs, model_bytes, explore, seeded_refute, guarded
import harness.C05 as C05
import harness.C06 as C06

ID = 'C07'
LEVEL = 'model_checking'
META = dict(
    functions=['scared.aes.selection_functions.encrypt:*', 'scared.aes.selection_functions.decrypt:*', 'scared.des.selection_functions.encrypt:*',
               'scared.des.selection_functions.decrypt:*', 'scared.selection_functions.base:SelectionFunction.__call__', 'scared.selection_functions.base:_AttackSelectionFunction',
               'scared.selection_functions.base:_AttackSelectionFunctionWrapped', 'scared.aes.base:encrypt/decrypt/key_schedule', 'scared.des.base:encrypt/decrypt/key_schedule'],
    bounds=dict(quick='all master keys (AES 16/24/32 bytes, DES 8 bytes, symbolic), plaintext / ciphertext batches of 2 symbolic blocks, symbolic guesses arrays (3 guesses; '
                      '16 resp. 8 guesses equal to the expected key words for the true-key clause), words in {None, 5, [0,2,1,3], slice(2,8), array([4,4,6])}, '
                      'guess sub-selections / permutations; all 10 AES and 16 DES constructors',
                thorough='same with batches of 3 and additional words selections'),
    assumptions=['AES table reads are function symbols (table lemmas in C05); the DES reference reads S-boxes through the same table terms as scared (table lemma in C06); DES guesses are 6-bit words (< 64) as the documented default guesses are'],
    outside=['guesses arrays longer than 16', 'non-default tag names'],
    stubs=[],
)
_m = {}

AES_CLASSES = {
    # name: (target, expected-key round, real function, at_round, after_step, formula id)
    'FirstAddRoundKey': ('plaintext', 'first', 'ark'),
    'FirstSubBytes': ('plaintext', 'first', 'sb'),
    'LastAddRoundKey': ('ciphertext', 'last', 'ark'),
    'LastSubBytes': ('ciphertext', 'last', 'isb'),
    'DeltaRLastRounds': ('ciphertext', 'last', 'delta'),
}
AES_DEC_ALIASES = {'FirstAddRoundKey': 'LastAddRoundKey', 'LastAddRoundKey': 'FirstAddRoundKey', 'FirstSubBytes': 'LastSubBytes', 'LastSubBytes': 'FirstSubBytes',
                   'DeltaRFirstRounds': 'DeltaRLastRounds'}
DES_CLASSES = {
    'FirstAddRoundKey': ('plaintext', 'first', 2), 'LastAddRoundKey': ('ciphertext', 'last', 2),
    'FirstSboxes': ('plaintext', 'first', 3), 'LastSboxes': ('ciphertext', 'last', 3),
    'FeistelRFirstRounds': ('plaintext', 'first', 7), 'FeistelRLastRounds': ('ciphertext', 'last', 7),
    'DeltaRFirstRounds': ('plaintext', 'first', 8), 'DeltaRLastRounds': ('ciphertext', 'last', 8),
}
DES_DEC_ALIASES = {'FirstAddRoundKey': 'LastAddRoundKey', 'LastAddRoundKey': 'FirstAddRoundKey', 'FirstSboxes': 'LastSboxes', 'LastSboxes': 'FirstSboxes',
                   'FeistelRFirstRounds': 'FeistelRLastRounds', 'FeistelRLastRounds': 'FeistelRFirstRounds', 'DeltaRFirstRounds': 'DeltaRLastRounds',
                   'DeltaRLastRounds': 'DeltaRFirstRounds'}
WORDS = [None, 5, [0, 2, 1, 3], slice(2, 8), 'arr:4,4,6']


def prepare(tier, seed):
    mods = loader.load(['scared.aes.base', 'scared.des.base', 'scared.aes.selection_functions.encrypt', 'scared.aes.selection_functions.decrypt',
                        'scared.des.selection_functions.encrypt', 'scared.des.selection_functions.decrypt', 'scared.selection_functions.base'])
    _m.update(aes=mods[0], des=mods[1], aes_enc=mods[2], aes_dec=mods[3], des_enc=mods[4], des_dec=mods[5], base=mods[6])
    C05._aes = mods[0]
    C06._des = mods[1]


def jobs(tier, seed):
    js = [dict(name='aliases', kind='alias')]
    n = 2 if tier == 'quick' else 3
    for ns in ('enc', 'dec'):
        for cls in (AES_CLASSES if ns == 'enc' else AES_DEC_ALIASES):
            for klen in (16, 24, 32):
                js.append(dict(name=f'aes-{ns}-{cls}-k{klen}', kind='aes', ns=ns, cls=cls, klen=klen, n=n))
        for cls in (DES_CLASSES if ns == 'enc' else DES_DEC_ALIASES):
            js.append(dict(name=f'des-{ns}-{cls}', kind='des', ns=ns, cls=cls, n=n))
    return js


def _words_obj(w):
    if isinstance(w, str):
        return S.const(rnp.array([int(x) for x in w[4:].split(',')], dtype='uint8'))
    return w


def _words_idx(w, nwords):
    """numpy index along the last axis equivalent to the selection."""
    if w is None:
        return list(range(nwords)), False
    if isinstance(w, int):
        return [w], True
    if isinstance(w, slice):
        return list(range(nwords))[w], False
    if isinstance(w, str):
        return [int(x) for x in w[4:].split(',')], False
    return list(w), False


def job_alias(job, res):
    res['obligations'] += 2
    res['nontrivial'] += 2
    ok = all(getattr(_m['aes_dec'], a) is getattr(_m['aes_enc'], b) for a, b in AES_DEC_ALIASES.items())
    ok2 = all(getattr(_m['des_dec'], a) is getattr(_m['des_enc'], b) for a, b in DES_DEC_ALIASES.items())
    for o, nm in ((ok, 'aes'), (ok2, 'des')):
        if o:
            res['discharged'] += 1
        else:
            res['failures'].append(dict(kind='alias', which=nm, what=f'{nm} decrypt-namespace selection functions are not the documented mirror of the encrypt namespace', key=dict(kind='alias')))
    res['samples'].append(dict(obligation='decrypt.FirstSubBytes is encrypt.LastSubBytes (and the other documented mirrors)', verdict='held' if ok and ok2 else 'violated'))


def _check_common(pr, res, mk, call_kw, ek_kw, formula, nwords, job, expected_key_ref, real_state, glim=None):
    """mk(guesses, words) builds the selection function."""
    n = job['n']
    G = S.sym_bv('g', (3,))
    if glim:
        for t in S.terms(G):
            pr.ex.assume(z3.ULT(t, glim))
            E.HINTS[t.get_id()] = glim - 1
    data = call_kw['data']
    inputs = [c for c, _ in CTX.symbols.values()]
    pr.fallback = lambda goal: seeded_refute(goal, inputs, C05._table_axioms(), assumptions=list(pr.ex.pc))

    def wit(what, **kw):
        def f(m):
            w_ = dict(kind=job['kind'], ns=job['ns'], cls=job['cls'], klen=job.get('klen', 8), clause=what, data=model_bytes(m, data), keyv=model_bytes(m, ek_kw['key']),
                      guesses=[m.eval(t, model_completion=True).as_long() for t in S.terms(G)], key=dict(kind=job['kind'], cls=job['cls'], clause=what))
            w_.update(kw)
            return w_
        return f
    # (0) a concrete guesses array that is neither sorted nor duplicate free: one column per entry (values are compared in (ii') below)
    gc = [37, 3, 3, 20]
    done, fullc = guarded(pr, f'{job["cls"]}(guesses={gc})', wit('columns', guesses=gc), lambda: mk(S.const(rnp.array(gc, dtype='uint8')), None)(**{call_kw['tag']: data}))
    if done:
        pr.prove(z3.BoolVal(tuple(fullc.shape) == (n, len(gc), nwords)), f'{job["cls"]}(guesses={gc}): output shape (traces, guesses, words) = {(n, len(gc), nwords)}', wit('columns', guesses=gc), sample=False)
    if res['failures']:
        return
    # (ii) every guess column is the computation with that guess in place of the key word; shape (traces, guesses, words)
    sf = mk(G, None)
    full = sf(**{call_kw['tag']: data})
    ok = tuple(full.shape) == (n, 3, nwords)
    exp = [formula(S.terms(data)[t * data.shape[1]:(t + 1) * data.shape[1]], g, w) for t in range(n) for g in S.terms(G) for w in range(nwords)] if ok else []
    if not ok:
        pr.prove(z3.BoolVal(False), f'{job["cls"]}: output shape (traces, guesses, words) = {(n, 3, nwords)}', wit('columns'))
    else:
        got = S.terms(full)
        per = 3 * nwords
        for t in range(n):          # one obligation per trace keeps every query small
            pr.prove(z3.Not(any_differs(got[t * per:(t + 1) * per], exp[t * per:(t + 1) * per])),
                     f'{job["cls"]}: output[{t}, i, w] == the targeted operation on word w with guess g_i in place of the key word; shape (traces, guesses, words)', wit('columns'), sample=(t == 0))
    # (ii') a concrete guesses array that is neither sorted nor duplicate free: the guess axis follows the caller's array entry by entry
    # (expected value: column 0 of the symbolic run, just proved, with the guess symbol replaced by the concrete guess)
    if done and ok:
        okc = tuple(fullc.shape) == (n, len(gc), nwords)
        g0 = S.terms(G)[0]
        for t in range(n if okc else 0):
            expc = [z3.substitute(full.c[t, 0, w], (g0, z3.BitVecVal(g, 8))) if E.is_sym(full.c[t, 0, w]) else full.c[t, 0, w] for g in gc for w in range(nwords)]
            pr.prove(z3.Not(any_differs(list(fullc.c[t].reshape(-1)), expc)),
                     f'{job["cls"]}(guesses={gc}): output[{t}, i, w] == the targeted operation with guess g_i, in the order and multiplicity of the guesses array', wit('columns', guesses=gc), sample=False)
    # (i) at the expected key the column is the real cipher state
    ek = sf.compute_expected_key(**{ek_kw['tag']: ek_kw['key']})
    ekref = expected_key_ref()
    okk = tuple(S._w(ek).shape) == (nwords,)
    pr.prove(z3.Not(any_differs(S.terms(ek), ekref)) if okk else z3.BoolVal(False), f'{job["cls"]}: compute_expected_key(key) == the round key the targeted operation uses', wit('expected-key'))
    # the same object asked again, for another key (the bytes of the first one in reverse order): the answer is the one for that key
    key2 = S.from_terms(list(reversed(S.terms(ek_kw['key']))), 'uint8')
    ek2 = sf.compute_expected_key(**{ek_kw['tag']: key2})
    ekref2 = expected_key_ref(S.terms(key2))
    okk2 = tuple(S._w(ek2).shape) == (nwords,)
    pr.prove(z3.Not(any_differs(S.terms(ek2), ekref2)) if okk2 else z3.BoolVal(False),
             f'{job["cls"]}: a second compute_expected_key call on the same object, with another key, answers for that key', wit('expected-key-second-call'), sample=False)
    if okk:
        sf_true = mk(S._w(ek), None)
        out = sf_true(**{call_kw['tag']: data})
        real = real_state()          # list per trace of list per word
        got = [out.c[t, w, w] for t in range(n) for w in range(nwords)]
        expd = [real[t][w] for t in range(n) for w in range(nwords)]
        pr.prove(z3.Not(any_differs(got, expd)), f'{job["cls"]}: hypothesis for word w at guess = expected key word w == word of the real cipher state the key word acts on', wit('true-key'))
    # (iii) words selections and guess sub-selections are slices of the full output
    for w in WORDS[1:]:
        idx, drop = _words_idx(w, nwords)
        out = mk(G, _words_obj(w))(**{call_kw['tag']: data})
        sel = full.c[:, :, idx]
        if drop:
            sel = sel[:, :, 0]
        okw = tuple(out.shape) == tuple(sel.shape)
        pr.prove(z3.Not(any_differs(list(S._w(out).c.reshape(-1)), list(sel.reshape(-1)))) if okw else z3.BoolVal(False),
                 f'{job["cls"]}(words={w}): output == full output[..., words]', wit('words', words=str(w)))
    for perm in ([2, 0], [1], [2, 1, 0]):
        Gp = S.from_terms([S.terms(G)[i] for i in perm], 'uint8')
        out = mk(Gp, None)(**{call_kw['tag']: data})
        sel = full.c[:, perm, :]
        okw = tuple(out.shape) == tuple(sel.shape)
        pr.prove(z3.Not(any_differs(list(out.c.reshape(-1)), list(sel.reshape(-1)))) if okw else z3.BoolVal(False),
                 f'{job["cls"]}(guesses=G[{perm}]): output == full output[:, {perm}, :]', wit('guess-selection', perm=perm))


def job_aes(job, res):
    fns = C05._register()
    ref = C05.uf_ref(fns)
    aes = _m['aes']
    ns_mod = _m['aes_enc'] if job['ns'] == 'enc' else _m['aes_dec']
    base_cls = job['cls'] if job['ns'] == 'enc' else AES_DEC_ALIASES[job['cls']]
    target, which, fid = AES_CLASSES[base_cls]
    klen, n = job['klen'], job['n']
    nr = F.NR[klen]

    def body(ex, pr):
        data = S.sym_bv('d', (n, 16))
        key = S.sym_bv('key', (klen,))
        rows = [S.terms(data)[16 * t:16 * t + 16] for t in range(n)]

        def formula(drow, g, w):
            x = drow[w] ^ g
            if fid == 'ark':
                return x
            if fid == 'sb':
                return fns['SBOX'](x)
            if fid == 'isb':
                return fns['INV_SBOX'](x)
            return drow[F.SHIFT[w]] ^ fns['INV_SBOX'](x)

        def expected_key_ref(kt=None):
            rk = ref.round_keys(kt if kt is not None else S.terms(key))
            return rk[0] if which == 'first' else rk[nr]

        def real_state():
            out = []
            for t in range(n):
                row = S.from_terms(rows[t], 'uint8')
                if fid == 'ark' and which == 'first':
                    st = S.terms(aes.encrypt(row, key, at_round=0, after_step=aes.Steps.ADD_ROUND_KEY))
                elif fid == 'sb':
                    st = S.terms(aes.encrypt(row, key, at_round=1, after_step=aes.Steps.SUB_BYTES))
                elif fid == 'ark':
                    st = S.terms(aes.decrypt(row, key, at_round=0, after_step=aes.InverseSteps.INV_ADD_ROUND_KEY))
                else:
                    s_in = S.terms(aes.decrypt(row, key, at_round=0, after_step=aes.InverseSteps.INV_SUB_BYTES))     # input of the last SubBytes
                    if fid == 'isb':
                        st = [s_in[F.SHIFT[w]] for w in range(16)]
                    else:
                        st = [rows[t][F.SHIFT[w]] ^ s_in[F.SHIFT[w]] for w in range(16)]
                out.append(st)
            return out
        tag_kw = ('plaintext_tag' if target == 'plaintext' else 'ciphertext_tag')

        def mk(g, w):
            return getattr(ns_mod, job['cls'])(guesses=g, words=w)
        _check_common(pr, res, mk, dict(tag=target, data=data), dict(tag='key', key=key), formula, 16, job, expected_key_ref, real_state)
    explore(res, body, max_paths=8, timeout_ms=30000)
    S.unregister_tables()


def job_des(job, res):
    des = _m['des']
    ns_mod = _m['des_enc'] if job['ns'] == 'enc' else _m['des_dec']
    base_cls = job['cls'] if job['ns'] == 'enc' else DES_DEC_ALIASES[job['cls']]
    target, which, step = DES_CLASSES[base_cls]
    n = job['n']
    dref = D.DesRef(C06.scared_sbox)      # S-box reads through scared's own table terms (tied to S1..S8 by the C06 table lemma)

    def body(ex, pr):
        data = S.sym_bv('d', (n, 8))
        key = S.sym_bv('key', (8,))

        def formula(drow, g, w):
            rk = [[z3.Extract(5 - i, 5 - i, g) for i in range(6)] * 8] * 16          # every round-key word = the guess
            tr = dref.des_pass(drow, rk)
            v, pos = D.DesRef.stop_value(tr, 0, step, True, True)
            return v[w]

        def expected_key_ref(kt=None):
            ks = D.key_schedule_bits(kt if kt is not None else S.terms(key))
            r = 0 if which == 'first' else 15
            return [z3.ZeroExt(2, z3.Concat(*ks[r][6 * w:6 * w + 6])) for w in range(8)]

        def real_state():
            out = []
            for t in range(n):
                row = S.from_terms(S.terms(data)[8 * t:8 * t + 8], 'uint8')
                fn = des.encrypt if which == 'first' else des.decrypt
                out.append(S.terms(fn(row, key, at_round=0, after_step=step)))
            return out

        def mk(g, w):
            return getattr(ns_mod, job['cls'])(guesses=g, words=w)
        _check_common(pr, res, mk, dict(tag=target, data=data), dict(tag='key', key=key), formula, 8, job, expected_key_ref, real_state, glim=64)
    explore(res, body, max_paths=8, timeout_ms=30000)


def run_job(job):
    res = new_result(job['name'])
    CTX.reset()
    {'alias': job_alias, 'aes': job_aes, 'des': job_des}[job['kind']](job, res)
    return res


def replay(w):
    import random
    import numpy as np
    import scared
    from scared import aes, des
    if w['kind'] == 'alias':
        m1, m2 = (aes.selection_functions.decrypt, aes.selection_functions.encrypt) if w['which'] == 'aes' else (des.selection_functions.decrypt, des.selection_functions.encrypt)
        al = AES_DEC_ALIASES if w['which'] == 'aes' else DES_DEC_ALIASES
        return dict(reproduced=not all(getattr(m1, a) is getattr(m2, b) for a, b in al.items()), detail='alias table')
    rnd = random.Random(5)
    isaes = w['kind'] == 'aes'
    nw = 16 if isaes else 8
    ns = (aes if isaes else des).selection_functions
    mod = ns.encrypt if w['ns'] == 'enc' else ns.decrypt
    base_cls = w['cls'] if w['ns'] == 'enc' else (AES_DEC_ALIASES if isaes else DES_DEC_ALIASES)[w['cls']]
    klen = w.get('klen', 8)
    cref = F.concrete_ref() if isaes else None
    tries = [(w['data'], w['keyv'], w['guesses'])]
    for _ in range(24):
        n = len(w['data'])
        tries.append(([[rnd.randrange(256) for _ in range(nw)] for _ in range(n)], [rnd.randrange(256) for _ in range(klen)], [rnd.randrange(256 if isaes else 64) for _ in range(3)]))
    for data, keyv, gs in tries:
        d = np.array(data, dtype=np.uint8)
        k = np.array(keyv, dtype=np.uint8)
        g = np.array(gs, dtype=np.uint8)
        target = (AES_CLASSES if isaes else DES_CLASSES)[base_cls][0]
        which = (AES_CLASSES if isaes else DES_CLASSES)[base_cls][1]
        cls = getattr(mod, w['cls'])
        full = cls(guesses=g)(**{target: d})
        # reference hypothesis
        if isaes:
            fid = AES_CLASSES[base_cls][2]
            sb, inv, _ = F.concrete_tables()

            def hyp(row, gg, wd):
                x = row[wd] ^ gg
                return {'ark': x, 'sb': sb[x], 'isb': inv[x]}.get(fid, None) if fid != 'delta' else row[F.SHIFT[wd]] ^ inv[x]
            rk = cref.round_keys(list(keyv))
            ekref = rk[0] if which == 'first' else rk[-1]
        else:
            step = DES_CLASSES[base_cls][2]

            def hyp(row, gg, wd):
                rkb = [[z3.BitVecVal((gg >> (5 - i)) & 1, 1) for i in range(6)] * 8] * 16
                tr = D.DesRef().des_pass([z3.BitVecVal(b, 8) for b in row], rkb)
                v, _ = D.DesRef.stop_value(tr, 0, step, True, True)
                return z3.simplify(v[wd]).as_long()
            ks = D.key_schedule_bits([z3.BitVecVal(b, 8) for b in keyv])
            r = 0 if which == 'first' else 15
            ekref = [z3.simplify(z3.ZeroExt(2, z3.Concat(*ks[r][6 * wd:6 * wd + 6]))).as_long() for wd in range(8)]
        clause = w['clause']
        if clause == 'columns':
            exp = np.array([[[hyp(row, int(gg), wd) for wd in range(nw)] for gg in gs] for row in data])
            if full.shape != exp.shape or (full != exp).any():
                return dict(reproduced=True, detail=f'{w["cls"]}: data={data} guesses={gs}: output {full.tolist()} expected {exp.tolist()}')
        elif clause == 'expected-key-second-call':
            obj = cls(guesses=g)
            obj.compute_expected_key(key=k)
            k2 = k[::-1].copy()
            ek2 = obj.compute_expected_key(key=k2)
            if isaes:
                rk2 = cref.round_keys([int(b) for b in k2])
                ref2 = rk2[0] if which == 'first' else rk2[-1]
            else:
                ks2 = D.key_schedule_bits([z3.BitVecVal(int(b), 8) for b in k2])
                ref2 = [z3.simplify(z3.ZeroExt(2, z3.Concat(*ks2[r][6 * wd:6 * wd + 6]))).as_long() for wd in range(8)]
            if list(np.array(ek2).reshape(-1)) != ref2:
                return dict(reproduced=True, detail=f'{w["cls"]}: compute_expected_key({keyv}) then compute_expected_key({k2.tolist()}) on the same object = {np.array(ek2).tolist()} but the round key of the second key is {ref2}')
        elif clause in ('expected-key', 'true-key'):
            ek = cls(guesses=g).compute_expected_key(key=k)
            if list(np.array(ek).reshape(-1)) != ekref:
                return dict(reproduced=True, detail=f'{w["cls"]}: compute_expected_key({keyv}) = {np.array(ek).tolist()} but the targeted round key is {ekref}')
            out = cls(guesses=np.array(ekref, dtype=np.uint8))(**{target: d})
            exp = [[hyp(row, ekref[wd], wd) for wd in range(nw)] for row in data]
            got = [[int(out[t, wd, wd]) for wd in range(nw)] for t in range(len(data))]
            if got != exp:
                return dict(reproduced=True, detail=f'{w["cls"]}: true-key column {got} expected {exp}')
        elif clause == 'words':
            ws = eval(w['words']) if not w['words'].startswith('arr:') else np.array([int(x) for x in w['words'][4:].split(',')], dtype='uint8')
            out = cls(guesses=g, words=ws)(**{target: d})
            idx, drop = _words_idx(w['words'] if w['words'].startswith('arr:') else ws, nw)
            exp = full[:, :, idx]
            if drop:
                exp = exp[:, :, 0]
            if out.shape != exp.shape or (out != exp).any():
                return dict(reproduced=True, detail=f'{w["cls"]}(words={w["words"]}) = {out.tolist()} but full output[..., words] = {exp.tolist()}')
        elif clause == 'guess-selection':
            perm = w['perm']
            out = cls(guesses=g[perm])(**{target: d})
            exp = full[:, perm, :]
            if out.shape != exp.shape or (out != exp).any():
                return dict(reproduced=True, detail=f'{w["cls"]}(guesses=G[{perm}]) differs from full[:, {perm}, :]')
    return dict(reproduced=False, detail='agrees on the model and seeded inputs')
