"""C03 - CPA (standard, alternative) = Pearson correlation, DPA = difference of class means (DESIGN.md section 5, C03)."""
import math
import itertools
import numpy as rnp
import z3

from vp import symnp as S, elem as E
from vp.elem import CTX
from vp.run import new_result
from harness.common import explore, prove_identity, is_identity
from harness import statlib as L
from harness.statlib import Fraction

ID = 'C03'
LEVEL = 'model_checking'
META = dict(
    functions=['scared.distinguishers.base:DistinguisherMixin.update', 'scared.distinguishers.base:DistinguisherMixin.compute', 'scared.distinguishers.cpa:CPADistinguisherMixin._initialize/_update/_compute',
               'scared.distinguishers.cpa:CPAAlternativeDistinguisherMixin._compute', 'scared.distinguishers.dpa:DPADistinguisherMixin._initialize/_update/_compute'],
    bounds=dict(quick='n in 2..4 traces (two batches), 2 samples, data words of shape (2,) and (2,2); trace dtype x precision in {uint8, float32, float64} x {float32, float64}; '
                      'regular entries: exact identities over the reals for ALL trace / data values; degenerate entries (constant sample, constant word, empty bit class): NaN',
                thorough='n up to 6'),
    assumptions=['floats are exact reals; arithmetic carried out in a float type narrower than the requested precision is marked by an uninterpreted rounding function (so it cannot be proved equal to the exact statistic)',
                 'integer-dtype traces / CPA data are modelled as real-valued symbols (the identities hold for all reals, hence all integers); DPA bits are integer symbols in {0,1}'],
    outside=['effects that exist only through rounding at the requested precision (e.g. tiny/0 = inf on a constant column in float32)', 'more than 6 traces per query'],
    stubs=['psutil.virtual_memory: real'],
)
GRID = [('uint8', 'float32'), ('uint8', 'float64'), ('float32', 'float32'), ('float32', 'float64'), ('float64', 'float64'), ('float64', 'float32')]


def prepare(tier, seed):
    L.load_distinguishers()


def jobs(tier, seed):
    js = []
    ns = [2, 3, 4] if tier == 'quick' else [2, 3, 4, 5, 6]
    for cls in ('CPADistinguisher', 'CPAAlternativeDistinguisher', 'DPADistinguisher'):
        for n in ns:
            for wshape in ((2,), (2, 2)):
                for (td, p) in (GRID if n == 3 else GRID[1:4:2] if n != 2 else GRID[:2]):
                    for scen in ('regular', 'const-sample', 'const-word'):
                        if n >= 5 and (scen != 'regular' or wshape != (2,)):
                            continue
                        js.append(dict(name=f'{cls}-n{n}-w{"x".join(map(str, wshape))}-{td}-{p}-{scen}', cls=cls, n=n, wshape=list(wshape), td=td, p=p, scen=scen))
        # memory layout of the data array: the same words handed over as Fortran-ordered arrays
        js.append(dict(name=f'{cls}-n3-w2x3-float64-float64-regular-Forder', cls=cls, n=3, wshape=[2, 3], td='float64', p='float64', scen='regular', forder=True))
    return js


def _cls(name):
    return getattr(L.MODS['cpa'], name) if name.startswith('CPA') else getattr(L.MODS['dpa'], name)


def run_job(job):
    res = new_result(job['name'])
    n, wshape, td, p, scen, clsname = job['n'], tuple(job['wshape']), job['td'], job['p'], job['scen'], job['cls']
    S_ = 2
    isdpa = clsname.startswith('DPA')
    W = int(rnp.prod(wshape))

    def body(ex, pr):
        x = S.sym_real('x', (n, S_), td)
        if isdpa:
            y = S.sym_int('d', (n,) + wshape, 'uint8')
            for j_, t in enumerate(S.terms(y)):
                ex.assume(z3.And(t >= 0, t <= 1))
                E.register(t, [(j_ // W + j_ % W + k_) % 2 for k_ in range(3)])      # seeded evaluation points inside the domain, both classes populated
        else:
            y = S.sym_real('y', (n,) + wshape, 'uint8')
        deg_s, deg_w = None, None
        if scen == 'const-sample':
            deg_s = None if isdpa else 1      # a constant sample is not undefined for DPA (difference of equal means = 0)
            c = E.register(z3.Real('cs'))
            for i in range(n):
                x.c[i, 1] = c
        if scen == 'const-word':
            deg_w = wshape and tuple([0] * (len(wshape) - 1) + [1])
            if isdpa:
                for i in range(n):
                    y.c[(i,) + deg_w] = 1          # empty class 0
            else:
                c = E.register(z3.Real('cw'))
                for i in range(n):
                    y.c[(i,) + deg_w] = c
        k = max(1, n // 2)
        d = _cls(clsname)(precision=p)
        fo = (lambda a: S.ndarray_impl(rnp.asfortranarray(a.c), a.dtype)) if job.get('forder') else (lambda a: a)
        d.update(x[:k], fo(y[:k]))
        mark, nsq0 = len(CTX.side), len(CTX.sqrts)
        before = L.snapshot(d)
        d.compute()                      # a result requested between batches must not influence later results (its own value is not examined here)
        changed = L.same_snapshot(before, L.snapshot(d))
        del CTX.side[mark:]
        nsq1 = len(CTX.sqrts)
        d.update(x[k:], fo(y[k:]))
        out = d.compute()
        xs = {s: [E.R(x.c[i, s]) for i in range(n)] for s in range(S_)}
        widx = list(rnp.ndindex(wshape))
        ys = {w: [E.R(E.to_real(y.c[(i,) + w], y.dtype)) for i in range(n)] for w in widx}

        def wit(what, w=None, s=None):
            return lambda m: dict(kind='stat', cls=clsname, precision=p, split=k, scen=scen, forder=bool(job.get('forder')), what_failed=what, word=list(w) if w is not None else None, sample=s,
                                  x=L.model_values(m, x), y=L.model_values(m, y), rounding=bool(td.startswith('float') and rnp.dtype(td).itemsize < rnp.dtype(p).itemsize),
                                  key=dict(kind='stat', cls=clsname, what=what))
        pr.prove(z3.BoolVal(not changed), f'{clsname}: compute() between two batches leaves every accumulator unchanged (changed: {changed})', wit('compute-mutates-state'))
        if changed:
            return          # later results are computed from a corrupted state: one finding is enough
        ok = tuple(out.shape) == wshape + (S_,) and d.processed_traces == n
        pr.prove(z3.BoolVal(ok), f'{clsname}: result has layout (word dims..., samples) = {wshape + (S_,)} ; processed_traces == {n}', wit('layout'))
        if not ok:
            return
        # assumptions of the regular regime: every non-degenerate column has positive variance / both bit classes are populated
        reg = []
        vx = {s: L.ssd(xs[s]) for s in range(S_)}
        for s in range(S_):
            if s != deg_s:
                reg.append(vx[s] > 0)
        if isdpa:
            cnt = {w: z3.Sum(ys[w]) for w in widx}
            for w in widx:
                if w != deg_w:
                    reg += [cnt[w] > 0, cnt[w] < n]
        else:
            vy = {w: L.ssd(ys[w]) for w in widx}
            for w in widx:
                if w != deg_w:
                    reg.append(vy[w] > 0)
        for c_ in reg:
            ex.assume(c_)
        res['twins'] += 1
        if ex.feasible():
            res['twins_ok'] += 1
        for w in widx:
            for s in range(S_):
                e = out.c[w + (s,)]
                degenerate = (s == deg_s) or (w == deg_w)
                desc = f'{clsname}(precision={p}, traces {td}, n={n}, batches {k}+{n - k}) entry word {w} sample {s}'
                if degenerate:
                    pr.prove(z3.BoolVal(E.is_special(e) and e != e), desc + ': statistic undefined => NaN (not finite, not infinite)', wit('degenerate-not-nan', w, s))
                    continue
                if E.is_special(e):
                    pr.prove(z3.BoolVal(False), desc + ': defined statistic must be finite', wit('regular-special', w, s))
                    continue
                marks = L.round_marks(E.R(e))
                if marks:
                    # arithmetic in a float type narrower than the requested precision: cannot equal the statistic up to rounding at that precision
                    res['obligations'] += 1
                    res['nontrivial'] += 1
                    w_ = dict(kind='stat', cls=clsname, precision=p, split=k, scen=scen, what_failed='rounding-mark', word=list(w), sample=s,
                              x=dict(shape=list(x.shape), dtype=td, values=[[1, 1]] * x.size), y=dict(shape=list(y.shape), dtype='uint8', values=[[1, 1]] * y.size),
                              rounding=True, key=dict(kind='stat', cls=clsname, what='rounding-mark'))
                    w_['what'] = desc + f': computed through {marks} (a float type narrower than the requested precision {p})'
                    res['failures'].append(w_)
                    continue
                num, den = L.ratform(E.R(e))
                if isdpa:
                    m1 = z3.Sum([a * b for a, b in zip(ys[w], xs[s])]) / cnt[w]
                    m0 = z3.Sum([(1 - a) * b for a, b in zip(ys[w], xs[s])]) / (n - cnt[w])
                    on, od = L.ratform(m1 - m0)
                    prove_identity(pr, num * od == on * den, desc + ' == mean(traces with bit 1) - mean(traces with bit 0)', wit('dpa-value', w, s))
                    continue
                cov = L.cov_sum(xs[s], ys[w])
                den2 = L.eliminate_sqrt_square(den)
                if den2 is None:
                    pr.prove(z3.BoolVal(False), desc + ': denominator is not a product of standard deviations', wit('cpa-shape', w, s))
                    continue
                prove_identity(pr, num * num * vx[s] * vy[w] == cov * cov * den2, desc + ': r^2 * var(x) * var(y) == cov(x, y)^2 (Pearson, squared form)', wit('cpa-square', w, s))
                dfree = z3.substitute(den, *[(sy, z3.RealVal(1)) for sy, _ in CTX.sqrts]) if CTX.sqrts else den
                c_ = L.proportional(num * dfree, cov)
                if c_ is not None and c_ > 0:
                    prove_identity(pr, num * dfree == L.rv(c_) * cov, desc + f': numerator == {c_} * cov(x, y), so the sign is the sign of the covariance', wit('cpa-sign', w, s))
                else:
                    pr.prove(z3.And(z3.Implies(cov > 0, num * dfree > 0), z3.Implies(cov < 0, num * dfree < 0)), desc + ': sign(r) == sign(cov)', wit('cpa-sign', w, s))
        if res['failures']:
            return          # one finding is enough; the remaining obligations would be posed on a wrong computation
        # recorded side conditions: the code's denominators / radicands are valid wherever the statistic is defined
        quantities = list(vx.values()) + ([] if isdpa else list(vy.values()))

        def positive_multiple(t):
            for q in quantities:
                c_ = L.proportional(t, q)
                if c_ is not None and c_ > 0 and not E.differs(t, L.rv(c_) * q) and is_identity(t == L.rv(c_) * q):
                    return c_
            return None
        seen = set()
        for kind, cond in CTX.side:
            if cond.get_id() in seen:
                continue
            seen.add(cond.get_id())
            if kind == 'rad>=0':
                res['obligations'] += 1
                res['nontrivial'] += 1
                if positive_multiple(cond.arg(0)) is not None:
                    res['discharged'] += 1          # radicand == c * (sum of squared deviations), c > 0
                    continue
                res['obligations'] -= 1
                res['nontrivial'] -= 1
            g = cond
            if kind == 'den!=0' and CTX.sqrts:
                # sqrt symbols are positive in the regular regime (their radicands are positive multiples of the variances, checked below)
                g = z3.Implies(z3.And(*[sy > 0 for sy, _ in CTX.sqrts]), cond)
            pr.prove(g, f'side condition {kind} holds wherever the statistic is defined', wit('side-' + kind), sample=False)
        for sy, rad in CTX.sqrts[:nsq0] + CTX.sqrts[nsq1:]:
            res['obligations'] += 1
            res['nontrivial'] += 1
            if positive_multiple(rad) is not None:
                res['discharged'] += 1
                continue
            res['obligations'] -= 1
            res['nontrivial'] -= 1
            pr.prove(rad > 0, 'sqrt argument positive in the regular regime', wit('side-sqrt'), sample=False)
    explore(res, body, max_paths=16, timeout_ms=30000, precision=rnp.dtype(p), exact=True)
    return res


# ---------------------------------------------------------------------------------------------


def _exact(clsname, X, Y, w, s):
    n = len(X)
    xs = [L.fr(X[i][s]) for i in range(n)]
    ys = [L.fr(Y[i][w]) for i in range(n)]
    if clsname.startswith('DPA'):
        ones = [x for x, y in zip(xs, ys) if y == 1]
        zeros = [x for x, y in zip(xs, ys) if y == 0]
        if not ones or not zeros:
            return math.nan
        return float(sum(ones) / len(ones) - sum(zeros) / len(zeros))
    mx, my = sum(xs) / n, sum(ys) / n
    cov = sum((a - mx) * (b - my) for a, b in zip(xs, ys))
    vx, vy = sum((a - mx) ** 2 for a in xs), sum((b - my) ** 2 for b in ys)
    if vx == 0 or vy == 0:
        return math.nan
    r2 = cov * cov / (vx * vy)
    return math.copysign(math.sqrt(float(r2)), float(cov)) if cov != 0 else 0.0


def replay(w):
    import random
    import numpy as np
    import scared
    cls = getattr(scared.distinguishers.cpa if w['cls'].startswith('CPA') else scared.distinguishers.dpa, w['cls'])
    x0, y0 = L.to_numpy(w['x']), L.to_numpy(w['y'])
    rnd = random.Random(7)
    tries = [(x0, y0)]
    for _ in range(6):
        if x0.dtype.kind == 'f':
            xr = np.array([rnd.uniform(1000, 5000) for _ in range(x0.size)], dtype=x0.dtype).reshape(x0.shape)
        else:
            xr = np.array([rnd.randrange(256) for _ in range(x0.size)], dtype=x0.dtype).reshape(x0.shape)
        yr = np.array([rnd.randrange(2 if w['cls'].startswith('DPA') else 256) for _ in range(y0.size)], dtype=y0.dtype).reshape(y0.shape)
        if w['scen'] == 'const-sample':
            xr[:, 1] = xr[0, 1]
        if w['scen'] == 'const-word':
            yr.reshape(yr.shape[0], -1)[:, 1] = 1 if w['cls'].startswith('DPA') else yr.reshape(yr.shape[0], -1)[0, 1]
        tries.append((xr, yr))
    tol = 2e-4 if w['precision'] == 'float32' else 1e-9
    for X, Y in tries:
        d = cls(precision=w['precision'])
        k = w['split']
        try:
            fo = np.asfortranarray if w.get('forder') else (lambda a: a)
            d.update(X[:k], fo(Y[:k]))
            snap = {a: np.array(v, copy=True) for a, v in vars(d).items() if isinstance(v, np.ndarray)}
            with np.errstate(all='ignore'):
                d.compute()
            for a, v in snap.items():
                if not np.array_equal(v, getattr(d, a), equal_nan=True):
                    return dict(reproduced=True, detail=f'{w["cls"]}: compute() after update({X[:k].tolist()}, {Y[:k].tolist()}) changed accumulator {a}: {v.tolist()} -> {np.array(getattr(d, a)).tolist()}')
            d.update(X[k:], fo(Y[k:]))
            out = np.array(d.compute())
        except Exception as ex:
            return dict(reproduced=True, detail=f'{w["cls"]} raised {type(ex).__name__}: {ex}')
        exp_shape = Y.shape[1:] + (X.shape[1],)
        if out.shape != exp_shape:
            return dict(reproduced=True, detail=f'result shape {out.shape}, expected {exp_shape}')
        Yf = Y.reshape(Y.shape[0], -1)
        of = out.reshape(-1, X.shape[1])
        for wi in range(Yf.shape[1]):
            for s in range(X.shape[1]):
                e = _exact(w['cls'], X.tolist(), Yf.tolist(), wi, s)
                g = float(of[wi, s])
                if (e != e) != (g != g) or (e == e and abs(g - e) > tol * max(1.0, abs(e))):
                    return dict(reproduced=True, detail=f'{w["cls"]}(precision={w["precision"]}) traces={X.tolist()} ({X.dtype}) data={Y.tolist()} split {k}: entry word {wi} sample {s} = {g!r}, definition gives {e!r}')
    return dict(reproduced=False, detail='real code agrees with the definitions on the model and seeded inputs')
