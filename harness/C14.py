"""C14 - templates are class means with pooled covariance; matching is Mahalanobis (DESIGN.md section 5, C14)."""
import numpy as rnp
import z3

from vp import symnp as S, elem as E
from vp.elem import CTX
from vp.run import new_result
from harness.common import explore
from harness import statlib as L
from harness.C01 import equal_elem

ID = 'C14'
LEVEL = 'model_checking'
META = dict(
    functions=['scared.distinguishers.template:_TemplateBuildDistinguisherMixin._initialize_accumulators/_accumulate/_accumulate_core_1/_accumulate_core_2/_compute/_check',
               'scared.distinguishers.template:_BaseTemplateAttackDistinguisherMixin._initialize/_update/_compute', 'scared.distinguishers.template:TemplateAttackDistinguisherMixin',
               'scared.distinguishers.template:TemplateDPADistinguisherMixin', 'scared.analysis.template:BaseTemplateAttack.build/_init_template (precision and class-set hand-over)'],
    bounds=dict(quick='build: n = 4..6 symbolic traces of length 1 and 2, class lists [0,1] and [2,0,1], every class with >= 2 traces, batches split 2 + rest with a compute() in between, precision float32/float64; '
                      'matching: 3 symbolic traces, symbolic templates and symbolic (pseudo-)inverse, static and DPA variants, two batches; hand-over of precision / partitions from the attack object to its build analysis',
                thorough='n up to 7, three classes'),
    assumptions=['exact reals; numpy.linalg.pinv is modelled exactly for 1x1 and non-singular 2x2 matrices (adjugate formula)', 'every declared class has at least two building traces (the unbiased covariance is undefined otherwise; the code warns)'],
    outside=['singular pooled covariance', 'trace length above 2 for the pseudo-inverse clause'],
    stubs=['symbolic clock', 'numba kernels interpreted', 'numpy.linalg.pinv model'],
)
_an = {}


def prepare(tier, seed):
    L.load_distinguishers()
    from vp import loader
    try:
        _an['template'], = loader.load(['scared.analysis.template'])
    except Exception as ex:          # noqa: B902
        _an['error'] = repr(ex)


def jobs(tier, seed):
    js = []
    for length in (1, 2):
        for plist in ([0, 1], [2, 0, 1]):
            for p in ('float64', 'float32'):
                n = 2 * len(plist) + (1 if length == 1 else 0) + (0 if tier == 'quick' else 2)
                js.append(dict(name=f'build-L{length}-p{"".join(map(str, plist))}-{p}', kind='build', length=length, plist=plist, p=p, n=n))
    for variant in ('static', 'dpa'):
        for length in (1, 2):
            js.append(dict(name=f'match-{variant}-L{length}', kind='match', variant=variant, length=length))
    js.append(dict(name='handover', kind='handover'))
    return js


def job_build(job, res):
    length, plist, p, n0 = job['length'], job['plist'], job['p'], job['n']
    M = L.MODS
    K = len(plist)

    def body(ex, pr):
        n = n0
        L.CLOCK.reset()
        class TB(M['partitioned'].PartitionedDistinguisherBase, M['template']._TemplateBuildDistinguisherMixin):
            pass
        # first batch (2 traces): class plist[0] only, so the early build sees the other classes empty; afterwards every class gets >= 2 traces
        rest = [plist[1 + (j // 2) % (K - 1)] for j in range(n - 2)]
        if rest.count(rest[-1]) < 2:
            rest[-1] = rest[0]
        lab = [[plist[0]], [plist[0]]] + [[v] for v in rest] + [[plist[0]]]       # the second batch holds exactly one trace of the first class
        n = len(lab)
        x = S.sym_real('x', (n, length), 'float64' if p == 'float64' else 'uint8')
        y = S.const(rnp.array(lab, dtype='uint8'))
        d = TB(partitions=plist, precision=p)
        d.update(x[:2], y[:2])
        mark = len(CTX.side)
        d.compute()                                       # a build requested early (classes with < 2 traces): must not disturb the final one
        del CTX.side[mark:]
        d.update(x[2:], y[2:])
        tpl = d.compute()
        rows = {v: [i for i in range(n) if lab[i][0] == v] for v in plist}
        ok_counts = all(len(r) >= 2 for r in rows.values())

        def wit(what):
            return lambda m: dict(kind='build', what_failed=what, plist=plist, labels=lab, p=p, x=L.model_values(m, x), key=dict(kind='build', what=what))
        pr.prove(z3.BoolVal(ok_counts and tuple(tpl.shape) == (K, length)), f'template build: {K} templates of length {length}', wit('shape'))
        bad = []
        for k, v in enumerate(plist):
            for s in range(length):
                if not equal_elem(tpl.c[k, s], z3.Sum([E.R(x.c[i, s]) for i in rows[v]]) / len(rows[v])):
                    bad.append((v, s))
        pr.prove(z3.BoolVal(not bad), f'template i == mean of the building traces whose value is class i (partitions {plist}, labels {[r[0] for r in lab]}, precision {p}; wrong: {bad})', wit('means'))
        # pooled covariance = average over declared classes of the unbiased within-class covariance
        badc = []
        pc = d.pooled_covariance
        for a in range(length):
            for b in range(length):
                tot = 0
                for v in plist:
                    r = rows[v]
                    ma = z3.Sum([E.R(x.c[i, a]) for i in r]) / len(r)
                    mb = z3.Sum([E.R(x.c[i, b]) for i in r]) / len(r)
                    tot = tot + z3.Sum([(E.R(x.c[i, a]) - ma) * (E.R(x.c[i, b]) - mb) for i in r]) / (len(r) - 1)
                if not equal_elem(pc.c[a, b], tot / K):
                    badc.append((a, b))
        pr.prove(z3.BoolVal(not badc and tuple(pc.shape) == (length, length)), f'pooled covariance == average of the unbiased within-class covariances (wrong entries: {badc})', wit('pooled'))
        # pseudo-inverse: inv @ pooled == identity wherever the matrix is non-singular
        inv = d.pooled_covariance_inv
        badi = []
        for a in range(length):
            for b in range(length):
                prod = 0
                for c in range(length):
                    u, v = inv.c[a, c], pc.c[c, b]
                    prod = prod + E.R(E.to_real(u, None)) * E.R(E.to_real(v, None))
                num, den = L.ratform(prod)
                from harness.common import is_identity
                if not is_identity(num == (den if a == b else 0 * den)):
                    badi.append((a, b))
        pr.prove(z3.BoolVal(not badi), f'pooled_covariance_inv @ pooled_covariance == identity (pseudo-inverse of exactly that matrix; wrong: {badi})', wit('pinv'))
    explore(res, body, max_paths=64, timeout_ms=20000, precision=rnp.dtype(p), exact=True)


def job_match(job, res):
    variant, length = job['variant'], job['length']
    T = L.MODS['template']

    def body(ex, pr):
        mixin = T.TemplateDPADistinguisherMixin if variant == 'dpa' else T.TemplateAttackDistinguisherMixin
        cls = type('TM', (mixin,), {})
        plist = [2, 0, 1]
        n = 3
        tpl = S.sym_real('tpl', (3, length), 'float64')
        P = S.sym_real('P', (length, length), 'float64')
        x = S.sym_real('x', (n, length), 'float64')
        hyp = S.const(rnp.array([[2, 0], [1, 1], [0, 2]], dtype='uint8')) if variant == 'dpa' else S.const(rnp.array([[0], [0], [0]], dtype='uint8'))
        o = cls(partitions=plist, precision='float64')
        o.is_build = True
        o.templates = tpl                       # row k is the template of class value plist[k]
        o.pooled_covariance = S.sym_real('C', (length, length), 'float64')
        o.pooled_covariance_inv = P
        o.update(x[:1], hyp[:1])
        o.compute()
        o.update(x[1:], hyp[1:])
        out = o.compute()
        ncand = hyp.shape[1] if variant == 'dpa' else len(plist)
        bad = []
        for c in range(ncand):
            tot = 0
            for i in range(n):
                row = plist.index(int(hyp.typed()[i, c])) if variant == 'dpa' else c
                dvec = [E.R(x.c[i, s]) - E.R(tpl.c[row, s]) for s in range(length)]
                tot = tot + z3.Sum([dvec[a] * E.R(P.c[a, b]) * dvec[b] for a in range(length) for b in range(length)])
            exp = 10 - tot / (n * length)
            if not equal_elem(out.c[c], exp):
                bad.append(c)
        pr.prove(z3.BoolVal(tuple(out.shape) == (ncand,) and not bad),
                 f'{variant} template matching: score_c == 10 - mean over traces and samples of (x - T_c)^T P (x - T_c), T_c = {"template of the hypothesis value" if variant == "dpa" else "fixed template c"} (wrong candidates: {bad})',
                 lambda m: dict(kind='match', variant=variant, length=length, x=L.model_values(m, x), tpl=L.model_values(m, tpl), P=L.model_values(m, P), key=dict(kind='match', variant=variant)))
        o2 = cls(partitions=plist, precision='float64')
        o2.is_build = False
        refused = False
        try:
            o2.update(x[:1], hyp[:1])
        except Exception:
            refused = True
        pr.prove(z3.BoolVal(refused), 'matching before build is refused', lambda m: dict(kind='match-before-build', key=dict(kind='match-before-build')))
    explore(res, body, max_paths=16, timeout_ms=20000, exact=True)


def job_handover(job, res):
    """BaseTemplateAttack hands its precision and class set to the build analysis (checked on the constructor, no traces needed)."""
    res['obligations'] += 1
    res['nontrivial'] += 1
    if 'template' not in _an:
        res['unknown'].append('scared.analysis.template could not be loaded under the shim: ' + _an.get('error', ''))
        return
    A = _an['template']
    import sys
    cont = sys.modules['scared.container']
    sfm = sys.modules['scared.selection_functions.base']
    models = sys.modules['scared.models']
    from harness.ths import FakeTHS
    ths = FakeTHS(S.const(rnp.zeros((2, 2), dtype='uint8')), {'data': S.const(rnp.zeros((2, 1), dtype='uint8'))})
    c = cont.Container(ths)
    sf = sfm.attack_selection_function(lambda data, guesses: data, words=0, guesses=rnp.arange(2, dtype='uint8'))
    rsf = sfm.reverse_selection_function(lambda data: data)
    bad = []
    for p in ('float32', 'float64'):
        for plist in (None, [2, 0, 1]):
            t = A.TemplateDPAAttack(container_building=c, selection_function=sf, reverse_selection_function=rsf, model=models.Value(), partitions=plist, precision=p)
            b = t._build_analysis
            same_parts = (plist is None and b.partitions is None) or (plist is not None and [int(v) for v in S._w(b.partitions).typed()] == plist)
            if rnp.dtype(b.precision) != rnp.dtype(p) or not same_parts:
                bad.append((p, plist, str(b.precision)))
    if not bad:
        res['discharged'] += 1
        res['samples'].append(dict(obligation='TemplateDPAAttack(precision=p, partitions=L)._build_analysis has precision p and partitions L', verdict='held'))
    else:
        res['failures'].append(dict(kind='handover', bad=bad, what=f'template attack does not hand precision / partitions to its build analysis: {bad}', key=dict(kind='handover')))


def run_job(job):
    res = new_result(job['name'])
    {'build': job_build, 'match': job_match, 'handover': job_handover}[job['kind']](job, res)
    return res


def replay(w):
    import random
    import numpy as np
    import scared
    from scared import distinguishers as D
    rnd = random.Random(8)
    if w['kind'] == 'handover':
        from scared import traces
        ths = traces.formats.read_ths_from_ram(samples=np.zeros((2, 2), dtype='uint8'), data=np.zeros((2, 1), dtype='uint8'))
        c = scared.Container(ths)
        sf = scared.attack_selection_function(lambda data, guesses: data, words=0, guesses=np.arange(2, dtype='uint8'))
        rsf = scared.reverse_selection_function(lambda data: data)
        bad = []
        for p in ('float32', 'float64'):
            t = scared.TemplateDPAAttack(container_building=c, selection_function=sf, reverse_selection_function=rsf, model=scared.Value(), partitions=[2, 0, 1], precision=p)
            if np.dtype(t._build_analysis.precision) != np.dtype(p):
                bad.append((p, str(t._build_analysis.precision)))
        return dict(reproduced=bool(bad), detail=f'build analysis precision differs from the requested one: {bad}')
    if w['kind'] == 'match-before-build':
        return dict(reproduced=False, detail='covered by C16')
    if w['kind'] == 'build':
        plist, lab, p = w['plist'], w['labels'], w['p']
        x0 = L.to_numpy(w['x'])
        tries = [x0] + [np.array([rnd.randrange(1, 200) for _ in range(x0.size)], dtype=x0.dtype).reshape(x0.shape) for _ in range(5)]
        y = np.array(lab, dtype='uint8')
        for X in tries:
            class TB(D.partitioned.PartitionedDistinguisherBase, D.template._TemplateBuildDistinguisherMixin):
                pass
            d = TB(partitions=plist, precision=p)
            d.update(X[:2], y[:2])
            d.compute()
            d.update(X[2:], y[2:])
            tpl = np.array(d.compute())
            Xf = X.astype('float64')
            tol = 1e-3 if p == 'float32' else 1e-9
            covs = []
            for k, v in enumerate(plist):
                r = [i for i in range(len(lab)) if lab[i][0] == v]
                if not np.allclose(tpl[k], Xf[r].mean(0), rtol=tol, atol=tol):
                    return dict(reproduced=True, detail=f'template of class {v}: {tpl[k].tolist()} but the mean of its traces is {Xf[r].mean(0).tolist()} (traces {X.tolist()}, labels {lab})')
                covs.append(np.atleast_2d(np.cov(Xf[r].T, ddof=1)))
            pooled = sum(covs) / len(plist)
            if not np.allclose(d.pooled_covariance, pooled, rtol=max(tol, 1e-6), atol=max(tol, 1e-6)):
                return dict(reproduced=True, detail=f'pooled covariance {np.array(d.pooled_covariance).tolist()} expected {pooled.tolist()} (traces {X.tolist()}, labels {lab})')
            if abs(np.linalg.det(pooled)) > 1e-6 and not np.allclose(np.array(d.pooled_covariance_inv) @ np.array(d.pooled_covariance), np.eye(X.shape[1]), atol=1e-6):
                return dict(reproduced=True, detail='pooled_covariance_inv is not the inverse of pooled_covariance')
        return dict(reproduced=False, detail='real code agrees with the definitions')
    if w['kind'] == 'match':
        variant = w['variant']
        T = D.template
        mixin = T.TemplateDPADistinguisherMixin if variant == 'dpa' else T.TemplateAttackDistinguisherMixin
        cls = type('TM', (mixin,), {})
        plist = [2, 0, 1]
        hyp = np.array([[2, 0], [1, 1], [0, 2]], dtype='uint8') if variant == 'dpa' else np.array([[0], [0], [0]], dtype='uint8')
        x0, t0, p0 = L.to_numpy(w['x']), L.to_numpy(w['tpl']), L.to_numpy(w['P'])
        tries = [(x0, t0, p0)] + [(np.array([rnd.uniform(-3, 3) for _ in range(x0.size)]).reshape(x0.shape), np.array([rnd.uniform(-3, 3) for _ in range(t0.size)]).reshape(t0.shape),
                                   np.array([rnd.uniform(-2, 2) for _ in range(p0.size)]).reshape(p0.shape)) for _ in range(5)]
        for X, Tm, Pm in tries:
            o = cls(partitions=plist, precision='float64')
            o.is_build = True
            o.templates, o.pooled_covariance, o.pooled_covariance_inv = Tm, np.eye(X.shape[1]), Pm
            o.update(X[:1], hyp[:1])
            o.compute()
            o.update(X[1:], hyp[1:])
            out = np.array(o.compute())
            ncand = hyp.shape[1] if variant == 'dpa' else 3
            for c in range(ncand):
                tot = 0.0
                for i in range(len(X)):
                    row = plist.index(int(hyp[i, c])) if variant == 'dpa' else c
                    dv = X[i] - Tm[row]
                    tot += float(dv @ Pm @ dv)
                exp = 10 - tot / (len(X) * X.shape[1])
                if abs(out[c] - exp) > 1e-9 * max(1, abs(exp)):
                    return dict(reproduced=True, detail=f'{variant} matching: candidate {c} score {out[c]!r} expected {exp!r}')
        return dict(reproduced=False, detail='real code agrees with the Mahalanobis definition')
    return dict(reproduced=False, detail='n/a')
