"""C12 - classes are identified by value: order irrelevant, foreign values ignored (DESIGN.md section 5, C12)."""
import itertools
import numpy as rnp
import z3

from vp import symnp as S, elem as E
from vp.elem import CTX
from vp.run import new_result
from harness.common import explore, is_identity
from harness import statlib as L
from harness.C01 import equal_elem

ID = 'C12'
LEVEL = 'model_checking'
META = dict(
    functions=['scared.distinguishers.partitioned:_set_partitions/_initialize/_build_lut/_define_lut_func/_accumulate_core_1/_accumulate_core_2/_compute',
               'scared.distinguishers.mia:MIADistinguisherMixin._accumulate_core/_compute', 'scared.distinguishers.template:_TemplateBuildDistinguisherMixin',
               'scared.distinguishers.template:TemplateAttackDistinguisherMixin/TemplateDPADistinguisherMixin.get_template_index/_update'],
    bounds=dict(quick='class lists over the universe {0,1,2,5,300} in several orders, with gaps and supersets; n = 4 traces in two batches (both accumulation kernels), 2 samples, 2 words; '
                      'label patterns containing declared and undeclared values; trace values symbolic; automatic class sets with first-batch maxima 0, 8, 9, 63, 64, 255',
                thorough='n = 5, more label patterns'),
    assumptions=['exact reals; label patterns concrete, trace values symbolic', 'template-DPA hypotheses carry declared values'],
    outside=['class values above 2**17 - 1 (lookup-table size)'],
    stubs=['symbolic clock', 'numba kernels interpreted'],
)
CLASS_LISTS = [[0, 1, 2], [2, 0, 1], [1, 2, 0], [5, 0, 300], [300, 0, 5], [0, 2, 1, 5], [0, 7, 1, 3], [2, 1], [1, 2], [0, 1, 2, 9]]
PATTERNS = [[[0, 1], [2, 5], [1, 1], [300, 0]], [[5, 5], [0, 2], [7, 300], [1, 0]], [[2, 2], [2, 1], [0, 0], [1, 5]]]


def prepare(tier, seed):
    L.load_distinguishers()


def jobs(tier, seed):
    js = []
    for fam in ('ANOVA', 'NICV', 'SNR', 'MIA', 'TemplateBuild', 'TemplateDPA', 'TemplateStatic'):
        for pi in range(len(PATTERNS)):
            js.append(dict(name=f'{fam}-pattern{pi}', kind='value', fam=fam, pattern=pi, n=4 if tier == 'quick' else 5))
    js.append(dict(name='auto-thresholds', kind='auto'))
    return js


def mk(fam, plist):
    M = L.MODS
    if fam in ('ANOVA', 'NICV', 'SNR'):
        return getattr(M['partitioned'], fam + 'Distinguisher')(partitions=plist, precision='float64')
    if fam == 'MIA':
        return M['mia'].MIADistinguisher(bin_edges=[0, 2, 4, 6], partitions=plist)
    if fam == 'TemplateBuild':
        class TB(M['partitioned'].PartitionedDistinguisherBase, M['template']._TemplateBuildDistinguisherMixin):
            pass
        return TB(partitions=plist, precision='float64')
    raise KeyError(fam)


def labels(pi, n, W):
    base = PATTERNS[pi]
    return [[base[i % len(base)][w] for w in range(W)] for i in range(n)]


def job_value(job, res):
    fam, n = job['fam'], job['n']
    W = 1 if fam.startswith('Template') else 2

    def body(ex, pr):
        lab = labels(job['pattern'], n, W)
        dt = 'uint16'
        y = S.const(rnp.array(lab, dtype=dt))
        if fam == 'MIA':
            x = S.const(rnp.array([[1, 5], [3, 0], [5, 5], [2, 7], [0, 4]][:n], dtype='uint8'))
        else:
            x = S.sym_real('x', (n, 2), 'float64')
        k = n // 2

        def wit(what, plist, other=None):
            return lambda m: dict(kind='value', fam=fam, what_failed=what, plist=plist, other=other, labels=lab, n=n, x=L.model_values(m, x), key=dict(kind='value', fam=fam, what=what))
        results = {}
        for plist in CLASS_LISTS:
            if fam in ('TemplateDPA', 'TemplateStatic'):
                continue
            L.CLOCK.reset()
            d = mk(fam, plist)
            d.update(x[:k], y[:k])
            d.update(x[k:], y[k:])
            # (a) every accumulator is the sum over the traces whose value equals the declared value; undeclared values contribute nowhere
            bad = []
            for kidx, v in enumerate(plist):
                for w in range(W):
                    rows = [i for i in range(n) if lab[i][w] == v]
                    if fam in ('ANOVA', 'NICV', 'SNR'):
                        for s in range(2):
                            if not equal_elem(d.sum.c[s, w, kidx], z3.Sum([E.R(x.c[i, s]) for i in rows]) if rows else 0):
                                bad.append(('sum', v, w, s))
                            if not equal_elem(d.sum_square.c[s, w, kidx], z3.Sum([E.R(x.c[i, s]) * E.R(x.c[i, s]) for i in rows]) if rows else 0):
                                bad.append(('sum_square', v, w, s))
                        if not equal_elem(d.counters.c[w, kidx], len(rows)):
                            bad.append(('counters', v, w))
                    elif fam == 'MIA':
                        xt = x.typed()
                        for s in range(2):
                            for b in range(3):
                                cnt = sum(1 for i in rows if (2 * b <= xt[i, s] < 2 * b + 2) or (b == 2 and xt[i, s] == 6))
                                if int(d.accumulators.c[s, b, kidx, w]) != cnt:
                                    bad.append(('accumulators', v, w, s, b))
                    else:
                        for s in range(2):
                            if not equal_elem(d._exi.c[kidx, s], z3.Sum([E.R(x.c[i, s]) for i in rows]) if rows else 0):
                                bad.append(('_exi', v, s))
                        if not equal_elem(d._counters.c[kidx], len(rows)):
                            bad.append(('_counters', v))
            pr.prove(z3.BoolVal(not bad), f'{fam}(partitions={plist}) labels {lab}: per-class accumulators are the sums over the traces carrying exactly that value (wrong: {bad[:4]})',
                     wit('by-value', plist), sample=(plist == CLASS_LISTS[1]))
            if fam != 'TemplateBuild' and not bad:
                mark = len(CTX.side)
                results[tuple(plist)] = d.compute()
                del CTX.side[mark:]
        # (b)/(c) same classes in another order, or extra unused classes: results unchanged
        groups = [([0, 1, 2], [2, 0, 1]), ([0, 1, 2], [1, 2, 0]), ([5, 0, 300], [300, 0, 5]), ([2, 1], [1, 2])]
        supers = ([([0, 1, 2], [0, 2, 1, 5])] if not any(5 in r for r in lab) else []) + [([0, 1, 2], [0, 1, 2, 9])]          # 9 occurs in no label pattern: an unused class
        for a, b in groups + supers:
            if tuple(a) in results and tuple(b) in results:
                ra, rb = results[tuple(a)], results[tuple(b)]
                same = tuple(ra.shape) == tuple(rb.shape) and all(equal_elem(u, v) for u, v in zip(ra.c.reshape(-1), rb.c.reshape(-1)))
                pr.prove(z3.BoolVal(bool(same)), f'{fam}: results with partitions={a} and partitions={b} are equal (labels {lab})', wit('order', a, b))
        if fam in ('TemplateDPA', 'TemplateStatic'):
            T = L.MODS['template']
            mixin = T.TemplateDPADistinguisherMixin if fam == 'TemplateDPA' else T.TemplateAttackDistinguisherMixin
            cls = type('TM', (mixin,), {})
            tpl = S.sym_real('tpl', (3, 2), 'float64')
            icov = S.sym_real('icov', (2, 2), 'float64')
            outs = {}
            base_list = [0, 1, 2]
            hyp = S.const(rnp.array([[lab[i][0] if lab[i][0] in base_list else 1, (lab[i][0] + 1) % 3 if lab[i][0] in base_list else 2] for i in range(n)], dtype='uint16'))
            for plist in ([0, 1, 2], [2, 0, 1], [1, 2, 0]):
                o = cls(partitions=plist, precision='float64')
                o.is_build = True
                # template of class value v is tpl[v] whatever the order of the class list
                o.templates = S.from_terms([[tpl.c[v, s] for s in range(2)] for v in plist], 'float64')
                o.pooled_covariance = S.sym_real('cov', (2, 2), 'float64')
                o.pooled_covariance_inv = icov
                o.update(x[:k], hyp[:k])
                o.update(x[k:], hyp[k:])
                outs[tuple(plist)] = o.compute()
            r0 = outs[(0, 1, 2)]
            for plist in ([2, 0, 1], [1, 2, 0]):
                r = outs[tuple(plist)]
                if fam == 'TemplateDPA':
                    same = tuple(r.shape) == tuple(r0.shape) and all(equal_elem(u, v) for u, v in zip(r.c.reshape(-1), r0.c.reshape(-1)))
                    pr.prove(z3.BoolVal(bool(same)), f'TemplateDPA matching: scores with partitions={plist} equal those with [0, 1, 2] (templates attached to values)', wit('dpa-order', plist))
                else:
                    same = all(equal_elem(r.c[plist.index(v)], r0.c[v]) for v in range(3))
                    pr.prove(z3.BoolVal(bool(same)), f'TemplateAttack matching: score of class value v with partitions={plist} equals its score with [0, 1, 2] (only reordered)', wit('static-order', plist))
    explore(res, body, max_paths=3000, timeout_ms=20000, exact=True)


def job_auto(job, res):
    def body(ex, pr):
        P = L.MODS['partitioned']
        for m in (0, 1, 8, 9, 10, 63, 64, 65, 255):
            for cls in ('SNRDistinguisher', 'ANOVADistinguisher'):
                L.CLOCK.reset()
                d = getattr(P, cls)(precision='float64')
                x = S.sym_real('x', (3, 1), 'float64')
                y = S.const(rnp.array([[m], [0], [m // 2]], dtype='uint8'))
                d.update(x, y)
                parts = [int(v) for v in S._w(d.partitions).typed()]
                ok = all(v in parts for v in (m, 0, m // 2))
                bad = not ok or not equal_elem(d.counters.c[0, parts.index(m)] if m in parts else 0, [m, 0, m // 2].count(m))
                pr.prove(z3.BoolVal(not bad), f'{cls} with automatic classes: first-batch maximum {m} is in the class set ({len(parts)} classes) and its traces are accumulated',
                         lambda mm, m=m, cls=cls: dict(kind='auto', cls=cls, max=m, key=dict(kind='auto', max=m)), sample=(m == 9))
    explore(res, body, max_paths=8, timeout_ms=20000, exact=True)


def run_job(job):
    res = new_result(job['name'])
    {'value': job_value, 'auto': job_auto}[job['kind']](job, res)
    return res


def replay(w):
    import random
    import numpy as np
    import scared
    from scared import distinguishers as D
    rnd = random.Random(4)
    if w['kind'] == 'auto':
        m = w['max']
        d = getattr(D, w['cls'])(precision='float64')
        d.update(np.array([[1.], [2.], [3.]]), np.array([[m], [0], [m // 2]], dtype='uint8'))
        parts = [int(v) for v in d.partitions]
        return dict(reproduced=m not in parts, detail=f'automatic class set for first-batch maximum {m}: {len(parts)} classes, contains {m}: {m in parts}')
    fam, lab, n = w['fam'], w['labels'], w['n']
    y = np.array(lab, dtype='uint16')
    x0 = L.to_numpy(w['x'])
    k = n // 2
    tries = [x0] + ([np.array([rnd.randrange(1, 50) for _ in range(x0.size)], dtype=x0.dtype).reshape(x0.shape) for _ in range(4)] if fam != 'MIA' else [])

    def build(plist, X):
        if fam in ('ANOVA', 'NICV', 'SNR'):
            d = getattr(D, fam + 'Distinguisher')(partitions=plist, precision='float64')
        elif fam == 'MIA':
            d = D.MIADistinguisher(bin_edges=[0, 2, 4, 6], partitions=plist)
        else:
            class TB(D.partitioned.PartitionedDistinguisherBase, D.template._TemplateBuildDistinguisherMixin):
                pass
            d = TB(partitions=plist, precision='float64')
        d.update(X[:k], y[:k])
        d.update(X[k:], y[k:])
        return d
    for X in tries:
        what = w['what_failed']
        if what == 'by-value':
            plist = w['plist']
            d = build(plist, X)
            for kidx, v in enumerate(plist):
                for wd in range(y.shape[1]):
                    rows = [i for i in range(n) if lab[i][wd] == v]
                    if fam in ('ANOVA', 'NICV', 'SNR'):
                        exp = X[rows].sum(0) if rows else np.zeros(X.shape[1])
                        if not np.allclose(d.sum[:, wd, kidx], exp) or d.counters[wd, kidx] != len(rows):
                            return dict(reproduced=True, detail=f'{fam}(partitions={plist}) labels {lab}: class value {v} word {wd}: sum {d.sum[:, wd, kidx].tolist()} count {d.counters[wd, kidx]} but the traces with that value give {exp.tolist()} / {len(rows)}')
                    elif fam == 'MIA':
                        for s in range(X.shape[1]):
                            for b in range(3):
                                cnt = sum(1 for i in rows if (2 * b <= X[i, s] < 2 * b + 2) or (b == 2 and X[i, s] == 6))
                                if d.accumulators[s, b, kidx, wd] != cnt:
                                    return dict(reproduced=True, detail=f'MIA(partitions={plist}) labels {lab}: class value {v} word {wd} sample {s} bin {b}: count {d.accumulators[s, b, kidx, wd]} expected {cnt}')
                    else:
                        exp = X[rows].sum(0) if rows else np.zeros(X.shape[1])
                        if not np.allclose(d._exi[kidx], exp) or d._counters[kidx] != len(rows):
                            return dict(reproduced=True, detail=f'template build(partitions={plist}) labels {lab}: class value {v}: sum {d._exi[kidx].tolist()} count {d._counters[kidx]} expected {exp.tolist()} / {len(rows)}')
        elif what == 'order':
            with np.errstate(all='ignore'):
                ra, rb = build(w['plist'], X).compute(), build(w['other'], X).compute()
            if ra.shape != rb.shape or not np.allclose(ra, rb, equal_nan=True, rtol=1e-9, atol=1e-12):
                return dict(reproduced=True, detail=f'{fam}: partitions={w["plist"]} give {np.array(ra).tolist()}, partitions={w["other"]} give {np.array(rb).tolist()} (labels {lab}, traces {X.tolist()})')
        elif what in ('dpa-order', 'static-order'):
            T = D.template
            mixin = T.TemplateDPADistinguisherMixin if what == 'dpa-order' else T.TemplateAttackDistinguisherMixin
            cls = type('TM', (mixin,), {})
            tpl = np.array([[1., 2.], [4., 0.], [3., 5.]])
            base_list = [0, 1, 2]
            hyp = np.array([[lab[i][0] if lab[i][0] in base_list else 1, (lab[i][0] + 1) % 3 if lab[i][0] in base_list else 2] for i in range(n)], dtype='uint16')
            outs = {}
            for plist in ([0, 1, 2], w['plist']):
                o = cls(partitions=plist, precision='float64')
                o.is_build = True
                o.templates = np.array([tpl[v] for v in plist])
                o.pooled_covariance = np.array([[2., .5], [.5, 1.]])
                o.pooled_covariance_inv = np.linalg.pinv(o.pooled_covariance)
                o.update(X[:k].astype('float64'), hyp[:k])
                o.update(X[k:].astype('float64'), hyp[k:])
                outs[tuple(plist)] = np.array(o.compute())
            r0, r = outs[(0, 1, 2)], outs[tuple(w['plist'])]
            exp = r0 if what == 'dpa-order' else np.array([r0[v] for v in w['plist']])
            if not np.allclose(r, exp):
                return dict(reproduced=True, detail=f'template matching with partitions={w["plist"]}: scores {r.tolist()}, with [0,1,2]: {r0.tolist()} (templates attached to the class values)')
    return dict(reproduced=False, detail='real code identifies classes by value on the model and seeded inputs')
