"""Helpers shared by the harness modules."""
import time
import random
import numpy as rnp
import z3

from vp import symnp as S, elem as E
from vp.elem import CTX
from vp.run import new_result


class Prover:
    """One solver per job; obligations are posed as `assumptions /\\ not goal` and must come back unsat."""

    def __init__(self, res, timeout_ms=60000):
        self.res = res
        self.s = z3.Solver()
        self.s.set('timeout', timeout_ms)
        self.assumptions = []

    def assume(self, *conds):
        self.assumptions += list(conds)
        self.s.add(*conds)

    def check_assumptions(self):
        """Vacuity guard: the assumptions themselves must be satisfiable."""
        self.res['twins'] += 1
        t = time.time()
        r = self.s.check()
        self.res['queries'] += 1
        self.res['solver_s'] += time.time() - t
        if r == z3.sat:
            self.res['twins_ok'] += 1
        return r == z3.sat

    def prove(self, goal, desc, witness_fn=None, extra=(), sample=True):
        """goal: z3 Bool (or Python bool).  Records the obligation; on sat calls witness_fn(model) -> witness dict."""
        res = self.res
        res['obligations'] += 1
        res['nontrivial'] += 1
        t = time.time()
        if isinstance(goal, bool):
            g = z3.BoolVal(goal)
        else:
            g = goal
        self.s.push()
        self.s.add(z3.Not(g), *extra)
        r = self.s.check()
        m = self.s.model() if r == z3.sat else None
        self.s.pop()
        dt = time.time() - t
        res['queries'] += 1
        res['solver_s'] += dt
        if r == z3.unsat:
            res['discharged'] += 1
            if sample and len(res['samples']) < 3:
                res['samples'].append(dict(obligation=desc, verdict='unsat', ms=round(dt * 1000, 1)))
            return True
        if r == z3.sat:
            w = witness_fn(m) if witness_fn else dict(what=desc)
            w.setdefault('what', desc)
            res['failures'].append(w)
            if len(res['samples']) < 6:
                res['samples'].append(dict(obligation=desc, verdict='sat', ms=round(dt * 1000, 1)))
            return False
        from vp import symx
        syms = [(n, c) for n, (c, _) in CTX.symbols.items()]
        r2, vals, tool = symx.external_check(list(self.assumptions) + [z3.Not(g)] + list(extra), syms, getattr(self, 'portfolio_s', 90))
        res['queries'] += 1
        if r2 == 'unsat':
            res['discharged'] += 1
            res['notes'].append(f'{desc}: in-process z3 gave unknown, discharged by {tool}')
            return True
        if r2 == 'sat':
            m2 = model_from_values(vals, syms)
            w = witness_fn(m2) if witness_fn else dict(what=desc)
            w.setdefault('what', desc)
            w['route'] = f'counterexample found by {tool} after in-process z3 returned unknown'
            res['failures'].append(w)
            return False
        res['unknown'].append(f'{desc}: solver returned {r} ({self.s.reason_unknown()}) after {dt:.1f}s; cvc5 / z3 4.8 binaries also inconclusive')
        return False


def guarded(pr, desc, witness_fn, fn):
    """Calls the code under test on inputs that are valid by construction. An exception it raises is a failed obligation (the
    documented result was not produced); the witness is replayed on the real code like any other. Limits of the shim are not."""
    try:
        return True, fn()
    except E.ShimUnsupported:
        raise
    except Exception as e_:          # noqa: B902 - path-steering exceptions are BaseException and pass through
        pr.prove(z3.BoolVal(False), f'{desc}: raised {type(e_).__name__}: {str(e_)[:160]}', witness_fn, sample=False)
        return False, None


def any_differs(xs, ys):
    """z3 condition: some pair differs (element lists of equal length)."""
    assert len(xs) == len(ys), (len(xs), len(ys))
    cs = []
    for a, b in zip(xs, ys):
        if not E.is_sym(a) and not E.is_sym(b):
            if a != b:
                return z3.BoolVal(True)
            continue
        if E.is_sym(a) and z3.is_bv(a) and not E.is_sym(b):
            b = z3.BitVecVal(int(b), a.size())
        if E.is_sym(b) and z3.is_bv(b) and not E.is_sym(a):
            a = z3.BitVecVal(int(a), b.size())
        cs.append(a != b)
    return z3.Or(*cs) if cs else z3.BoolVal(False)


def all_equal(xs, ys):
    return z3.Not(any_differs(xs, ys))


def bv_value(m, t):
    return m.eval(t, model_completion=True).as_long()


def model_bytes(m, arr):
    """Concrete values of a shim array of bit-vector terms under model m (nested lists)."""
    a = S._w(arr)
    out = rnp.zeros(a.shape, dtype=object)
    for i in rnp.ndindex(a.shape):
        x = a.c[i]
        out[i] = bv_value(m, x) if E.is_sym(x) else int(x)
    return out.tolist()


def frame_unchanged(before_terms, arr):
    """The caller's array still holds exactly the same element objects / values."""
    now = S.terms(arr)
    if len(now) != len(before_terms):
        return False
    for a, b in zip(before_terms, now):
        if E.is_sym(a) or E.is_sym(b):
            if not (E.is_sym(a) and E.is_sym(b) and a.eq(b)):
                return False
        elif a != b:
            return False
    return True


def rng(seed, *salt):
    import zlib
    return random.Random(zlib.crc32(repr((seed,) + salt).encode()))


class PathProver:
    """Same interface as Prover, but obligations are posed under the executor's current path condition."""

    def __init__(self, res, ex):
        self.res, self.ex = res, ex

    def assume(self, *conds):
        for c in conds:
            self.ex.assume(c)

    def prove(self, goal, desc, witness_fn=None, extra=(), sample=True):
        res = self.res
        res['obligations'] += 1
        res['nontrivial'] += 1
        t = time.time()
        g0 = goal if not isinstance(goal, bool) else z3.BoolVal(goal)
        fb = getattr(self, 'fallback', None)
        if fb is None:
            r, m = self.ex.prove(g0, extra)
        else:
            # 1. structurally equal designs simplify to true; 2. short solver attempt in a killable child (z3 ignores its own timeout on
            # deep unequal miters); 3. on timeout look for a counterexample by evaluating the obligation on seeded inputs; 4. long attempt
            r = None
            sg = z3.simplify(g0)
            if z3.is_true(sg):
                r, m = 'unsat', None
            elif term_size(sg, 400) < 400:
                r, m = self.ex.prove(g0, extra)
            else:
                syms = [(n, c) for n, (c, _) in CTX.symbols.items()]
                ra, _ = self.ex.prove_forked(abstract_selects(sg), getattr(self, 'abstract_limit', 60.0), [])      # table reads abstracted: pure bit-level obligation
                if ra == 'unsat':
                    r, vals = 'unsat', None
                else:
                    r, vals = self.ex.prove_forked(g0, 4.0, syms)
                m = model_from_values(vals, syms) if r == 'sat' else None
                if r == 'unknown':
                    m = fb(g0)
                    if m is not None:
                        r = 'sat'
                    else:
                        r, vals, tool = self.ex.prove_external(g0, getattr(self, 'long_limit', 60.0), syms)
                        m = model_from_values(vals, syms) if r == 'sat' else None
                        if r == 'unknown':
                            r, vals = self.ex.prove_forked(g0, getattr(self, 'long_limit', 60.0), syms)
                            m = model_from_values(vals, syms) if r == 'sat' else None
        dt = time.time() - t
        if r == 'unsat':
            res['discharged'] += 1
            if sample and len(res['samples']) < 3:
                res['samples'].append(dict(obligation=desc, verdict='unsat', ms=round(dt * 1000, 1), path_condition_size=len(self.ex.pc)))
            return True
        if r == 'sat':
            w = witness_fn(m) if witness_fn else dict(what=desc)
            w.setdefault('what', desc)
            res['failures'].append(w)
            if len(res['samples']) < 6:
                res['samples'].append(dict(obligation=desc, verdict='sat', ms=round(dt * 1000, 1)))
            return False
        res['unknown'].append(f'{desc}: solver returned unknown after {dt:.1f}s')
        return False


def abstract_selects(t):
    """Replace every array read / function-symbol application inside t by a fresh variable (one per distinct term): a generalisation,
    so proving the result proves t."""
    cache = {}

    def go(e_):
        k_ = e_.get_id()
        if k_ in cache:
            return cache[k_]
        if z3.is_app(e_) and (e_.decl().kind() == z3.Z3_OP_SELECT or (e_.decl().kind() == z3.Z3_OP_UNINTERPRETED and e_.num_args() > 0)):
            r = z3.FreshConst(e_.sort(), 'rd')
        elif z3.is_app(e_) and e_.num_args() > 0:
            ch = [go(c) for c in e_.children()]
            r = e_.decl()(*ch) if any(not a.eq(b) for a, b in zip(ch, e_.children())) else e_
        else:
            r = e_
        cache[k_] = r
        return r
    return go(t)


def term_size(t, cap):
    """Number of distinct AST nodes of t, counting stops at cap."""
    seen = set()
    stack = [t]
    while stack and len(seen) < cap:
        e_ = stack.pop()
        k = e_.get_id()
        if k in seen:
            continue
        seen.add(k)
        stack.extend(e_.children())
    return len(seen)


class EvalModel:
    """Model-like object for a full assignment of the input symbols (evaluation by substitution + simplification)."""

    def __init__(self, pairs, axioms=()):
        self.pairs = pairs
        self.axioms = axioms

    def eval(self, t, model_completion=True):
        r = z3.simplify(z3.substitute(t, *self.pairs)) if self.pairs else z3.simplify(t)
        if model_completion and z3.is_const(r) and r.decl().kind() == z3.Z3_OP_UNINTERPRETED:
            r = z3.BitVecVal(0, r.size()) if z3.is_bv(r) else (z3.BoolVal(False) if z3.is_bool(r) else (z3.IntVal(0) if r.is_int() else z3.RealVal(0)))
        if self.axioms and not (z3.is_bv_value(r) or z3.is_true(r) or z3.is_false(r) or z3.is_rational_value(r) or z3.is_int_value(r)):
            s = z3.Solver()
            s.add(*self.axioms)
            if s.check() == z3.sat:
                r = s.model().eval(r, model_completion=True)
        return r


def model_from_values(vals, syms):
    """{symbol name: value string} (from a forked solver) -> EvalModel."""
    pairs = []
    for n, c in syms:
        v = (vals or {}).get(n)
        if v is None:
            continue
        if z3.is_bv(c):
            pairs.append((c, z3.BitVecVal(int(v), c.size())))
        elif z3.is_bool(c):
            pairs.append((c, z3.BoolVal(v == 'True')))
        elif c.is_int():
            pairs.append((c, z3.IntVal(int(v))))
        else:
            pairs.append((c, z3.RealVal(v.replace('?', ''))))
    return EvalModel(pairs)


def seeded_refute(goal, inputs, axioms=(), tries=6, seed=0, timeout_ms=20000, assumptions=()):
    """Look for a counterexample to `goal` by evaluating it on seeded values of the input symbols (substitution + simplification;
    `axioms` are ground table interpretations used when function symbols remain).  Returns a model-like object or None."""
    r = random.Random(seed)
    for _ in range(tries):
        pairs = []
        for t in inputs:
            if z3.is_bv(t):
                hint = E.HINTS.get(t.get_id())
                v = r.getrandbits(t.size())
                if hint is not None:
                    v &= hint
                pairs.append((t, z3.BitVecVal(v, t.size())))
            elif z3.is_bool(t):
                pairs.append((t, z3.BoolVal(bool(r.getrandbits(1)))))
            elif t.is_int():
                pairs.append((t, z3.IntVal(r.randint(-9, 9))))
            else:
                pairs.append((t, z3.RealVal(r.randint(-9, 9))))
        m = EvalModel(pairs, axioms)
        if assumptions and not all(z3.is_true(m.eval(a)) for a in assumptions):
            continue
        v = m.eval(goal)
        if z3.is_false(v):
            return m
    return None


QUIET = dict(queries=0, by_simplify=0, refuted_by_evaluation=0, solver_s=0.0)     # identity checks made outside Prover.prove (folded into the result by explore)


def is_identity(goal, seconds=10.0):
    """Quiet check that goal holds for all values (no assumptions): seeded evaluation, then a killable solver run."""
    from vp import symx
    for k in range(3):
        pairs = []
        for name, (c, vals) in CTX.symbols.items():
            v = vals[k % len(vals)]
            pairs.append((c, z3.BitVecVal(v, c.size()) if z3.is_bv(c) else (z3.IntVal(v) if c.is_int() else E.R(v))))
        try:
            if z3.is_false(EvalModel(pairs).eval(goal)):
                QUIET['refuted_by_evaluation'] += 1
                return False
        except z3.Z3Exception:
            pass
    t0 = time.time()
    QUIET['queries'] += 1
    try:
        if z3.is_true(z3.simplify(goal)):
            QUIET['by_simplify'] += 1
            return True
        s = z3.Solver()
        s.set('timeout', 3000)
        s.add(z3.Not(goal))
        r = str(s.check())             # the seeded points agree: almost surely an identity, settled by normalisation
        if r == 'unknown':
            s = z3.Solver()
            s.add(z3.Not(goal))
            r, _ = symx.forked_check(s, [], seconds, [])
        return r == 'unsat'
    finally:
        QUIET['solver_s'] += time.time() - t0


def prove_identity(pr, goal, desc, witness_fn=None, sample=True):
    """Obligations that are identities (valid without any assumption): first a solver without the path condition (nonlinear
    assumptions in the path condition slow nlsat down by orders of magnitude); the path-condition solver only if that fails."""
    res = pr.res
    t = time.time()
    # cheap refutation: evaluate at the seeded points of the input symbols (a point must satisfy the path condition to be a witness)
    for k in range(3):
        pairs = []
        for name, (c, vals) in CTX.symbols.items():
            v = vals[k % len(vals)]
            pairs.append((c, z3.BitVecVal(v, c.size()) if z3.is_bv(c) else (z3.IntVal(v) if c.is_int() else E.R(v))))
        m = EvalModel(pairs)
        try:
            gv = m.eval(goal)
            if z3.is_false(gv) and all(z3.is_true(m.eval(a)) for a in pr.ex.pc):
                res['obligations'] += 1
                res['nontrivial'] += 1
                w = witness_fn(m) if witness_fn else dict(what=desc)
                w.setdefault('what', desc)
                w['route'] = 'identity refuted by evaluation at a seeded point'
                res['failures'].append(w)
                if len(res['samples']) < 6:
                    res['samples'].append(dict(obligation=desc, verdict='sat (seeded point)'))
                return False
        except z3.Z3Exception:
            pass
    from vp import symx
    s = z3.Solver()
    s.set('timeout', 4000)
    s.add(z3.Not(goal))
    r = str(s.check())          # the seeded points agree, so this is almost surely an identity: normalisation settles it in milliseconds
    if r != 'unsat':
        s = z3.Solver()
        s.add(z3.Not(goal))
        r, _ = symx.forked_check(s, [], 15.0, [])
    res['queries'] += 1
    res['solver_s'] += time.time() - t
    if r == 'unsat':
        res['obligations'] += 1
        res['nontrivial'] += 1
        res['discharged'] += 1
        if sample and len(res['samples']) < 3:
            res['samples'].append(dict(obligation=desc, verdict='unsat (identity, no assumptions needed)', ms=round((time.time() - t) * 1000, 1)))
        return True
    # not an identity by itself: decide it under the path condition, in a killable child
    syms = [(n, c) for n, (c, _) in CTX.symbols.items()]
    res['obligations'] += 1
    res['nontrivial'] += 1
    r, vals = pr.ex.prove_forked(goal, 25.0, syms)
    if r == 'unsat':
        res['discharged'] += 1
        return True
    if r == 'sat':
        m = model_from_values(vals, syms)
        w = witness_fn(m) if witness_fn else dict(what=desc)
        w.setdefault('what', desc)
        res['failures'].append(w)
        return False
    res['unknown'].append(f'{desc}: solver inconclusive (killed after 25 s)')
    return False


def explore(res, body, max_paths=2000, timeout_ms=30000, float_mode='regular', precision=None, exact=False):
    """Run body(ex, PathProver) over all paths; folds executor statistics into res."""
    from vp import symx
    ex = symx.Executor(max_paths=max_paths, timeout_ms=timeout_ms)
    q0 = dict(QUIET)

    def one(ex):
        CTX.reset(ex=ex, float_mode=float_mode, precision=precision, exact=exact)
        out_ = body(ex, PathProver(res, ex))
        # vacuity guard (reachability twin): the path condition together with everything the harness assumed on this path must be
        # satisfiable, otherwise every obligation proved on it holds vacuously; a mismatch makes the run inconclusive
        res['twins'] += 1
        if ex.feasible():
            res['twins_ok'] += 1
        return out_
    out = ex.run(one)
    st = ex.stats()
    res['paths'] += st['paths']
    res['queries'] += st['queries']
    res['solver_s'] += st['solver_s']
    res['queries'] += QUIET['queries'] - q0['queries']
    res['solver_s'] += QUIET['solver_s'] - q0['solver_s']
    if st['exhausted']:
        res['unknown'].append(f'path budget exhausted ({max_paths} paths)')
    if st['unknowns']:
        res['notes'].append(f"{st['unknowns']} feasibility checks returned unknown (treated as feasible)")
    CTX.reset()
    return out
