"""C01 - incremental distinguishers are invariant to how traces are split into batches (DESIGN.md section 5, C01)."""
import itertools
import numpy as rnp
import z3

from vp import loader, symnp as S, elem as E
from vp.elem import CTX
from vp.run import new_result
from harness.common import explore, is_identity
from harness import statlib as L
import harness.C16 as C16

ID = 'C01'
LEVEL = 'model_checking'
DISTS = ['CPA', 'CPAAlt', 'DPA', 'ANOVA', 'NICV', 'SNR-auto', 'SNR-2cls', 'MIA', 'TemplateBuild', 'TemplateMatch', 'TTest']
META = dict(
    functions=['scared.distinguishers.base:DistinguisherMixin.update/compute', 'scared.distinguishers.cpa:*', 'scared.distinguishers.dpa:*', 'scared.distinguishers.partitioned:*',
               'scared.distinguishers.mia:*', 'scared.distinguishers.template:*', 'scared.ttest:TTestThreadAccumulator.update/compute/_update_core'],
    bounds=dict(quick='n = 3 traces (MIA: 2), every ordered partition into consecutive non-empty batches (4 compositions), with and without compute() after every update, compute() twice at the end; '
                      '11 distinguishers (SNR also with two classes that are all populated after two traces; DPA labels with an all-zero trace); trace values symbolic (all reals), class labels concrete patterns including undeclared values; precision float64 (float32 as well for CPA, ANOVA, template build, t-test; for all in the thorough tier)',
                thorough='n = 4 (8 compositions); MIA: n = 3'),
    assumptions=['floats are exact reals; equality of states / results is a polynomial (rational) identity decided by z3', 'MIA: samples symbolic, bin membership explored by forking'],
    outside=['batches of more than 4 traces', 'rounding at the requested precision'],
    stubs=['time.process_time: symbolic clock (kernel choice explored by the solver)', 'numba kernels interpreted'],
)
_tt = {}


def prepare(tier, seed):
    L.load_distinguishers()
    _tt['ttest'], = loader.load(['scared.ttest'])


def jobs(tier, seed):
    n = 3 if tier == 'quick' else 4
    js = []
    for d in DISTS:
        for p in ('float64', 'float32'):
            if d in ('MIA',) and p == 'float32':
                continue
            if tier == 'quick' and p == 'float32' and d not in ('CPA', 'ANOVA', 'TTest', 'TemplateBuild'):
                continue          # quick: the second precision only where the dtype handling differs per class
            for variant in range(2 if d in ('ANOVA', 'NICV', 'SNR-auto', 'TemplateBuild') else 1):
                nn = (2 if tier == 'quick' else 3) if d == 'MIA' else n          # MIA forks on every sample's position relative to the edges: up to 7^n paths
                js.append(dict(name=f'{d}-{p}-n{nn}-v{variant}', dist=d, p=p, n=nn, variant=variant))
    return js


def compositions(n):
    out = []
    for cuts in itertools.product([0, 1], repeat=n - 1):
        parts, cur = [], 1
        for c in cuts:
            if c:
                parts.append(cur)
                cur = 1
            else:
                cur += 1
        parts.append(cur)
        out.append(parts)
    return out


LABELS = {('ANOVA', 0): [[0, 1], [7, 1], [1, 2], [0, 7]], ('ANOVA', 1): [[1, 0], [1, 1], [7, 0], [2, 2]],
          ('NICV', 0): [[0, 1], [1, 7], [1, 2], [7, 0]], ('NICV', 1): [[2, 2], [0, 1], [0, 7], [1, 1]],
          ('SNR-auto', 0): [[0, 8], [3, 1], [8, 8], [0, 1]], ('SNR-auto', 1): [[8, 0], [0, 0], [1, 3], [3, 8]],
          ('TemplateBuild', 0): [[0], [1], [0], [1]], ('TemplateBuild', 1): [[1], [1], [0], [0]]}


def make(dist, p):
    if dist == 'TTest':
        return _tt['ttest'].TTestThreadAccumulator(precision=rnp.dtype(p))
    o = C16.make(dist)
    if dist != 'MIA':
        o._set_precision(p)
    return o


def data_for(dist, variant, n):
    if dist in ('CPA', 'CPAAlt'):
        return S.sym_real('y', (n, 2), 'uint8')
    if dist == 'DPA':
        return S.const(rnp.array([[0, 1], [0, 0], [1, 0], [1, 1]][:n], dtype='uint8'))       # trace 1 alone is a batch without any one
    if dist == 'SNR-2cls':
        return S.const(rnp.array([[0, 1], [1, 0], [0, 0], [1, 1]][:n], dtype='uint8'))       # both classes of both words populated after two traces
    if dist == 'MIA':
        return S.const(rnp.array([[0, 1], [2, 7], [1, 1], [0, 2]][:n], dtype='uint8'))
    if dist == 'TemplateMatch':
        return S.const(rnp.array([[0], [1], [1], [0]][:n], dtype='uint8'))
    if dist == 'TTest':
        return None
    return S.const(rnp.array(LABELS[(dist, variant)][:n], dtype='uint8'))


def result_terms(dist, obj):
    r = obj.compute()
    if dist == 'TTest':
        return [('mean', obj.mean), ('var', obj.var)]
    out = [('result', r)]
    if dist == 'TemplateBuild':
        out += [('pooled_covariance', obj.pooled_covariance)]
    return out


def equal_elem(a, b):
    """Elements equal for all values of the symbols?"""
    sa, sb = E.is_sym(a), E.is_sym(b)
    if not sa and not sb:
        if (a != a and b != b) or a == b:
            return True
        try:
            import math
            return math.isclose(float(a), float(b), rel_tol=1e-9, abs_tol=1e-12)      # concrete floats computed by real numpy (e.g. log): summation order
        except (TypeError, ValueError):
            return False
    if E.is_special(a) or E.is_special(b):
        return False
    ta, tb = E.R(E.to_real(a, None)) if sa else E.R(a), E.R(E.to_real(b, None)) if sb else E.R(b)
    if ta.eq(tb):
        return True
    (na, da), (nb, db) = L.ratform(ta), L.ratform(tb)
    return is_identity(na * db == nb * da)


def compare(snap_a, snap_b, skip=()):
    bad = []
    for k in sorted(set(snap_a) | set(snap_b)):
        if k in skip:
            continue
        if k not in snap_a or k not in snap_b:
            bad.append(k)
            continue
        va, vb = snap_a[k], snap_b[k]
        if isinstance(va, tuple) and va and va[0] == 'plain-tuple':
            if va != vb:
                bad.append(k)
            continue
        if isinstance(va, tuple) and isinstance(vb, tuple):
            if va[0] != vb[0] or len(va[2]) != len(vb[2]) or not all(equal_elem(x, y) for x, y in zip(va[2], vb[2])):
                bad.append(k)
        elif va != vb:
            bad.append(k)
    return bad


def run_job(job):
    res = new_result(job['name'])
    dist, p, n, variant = job['dist'], job['p'], job['n'], job['variant']
    SKIP = {'_timings', 'mean', 'var', 'pooled_covariance', 'pooled_covariance_inv', 'y_window', '_is_checked', '_origin_shape'}      # _origin_shape: shape of the first batch, rows included

    def body(ex, pr):
        L.CLOCK.reset()
        if dist == 'MIA':
            x = S.sym_real('x', (n, 1), 'float64')
        else:
            x = S.sym_real('x', (n, 2), 'float64' if p == 'float64' else 'uint8')
        y = data_for(dist, variant, n)
        if dist != 'MIA' and p != 'float64':
            # integer traces: values are those of the dtype; arithmetic carried out in an integer dtype must stay inside it (it would wrap)
            CTX.int_range = True
            for v in S.terms(x):
                ex.assume(z3.And(E.R(v) >= 0, E.R(v) <= 255))
        ranges = {}

        def feed(parts, computes):
            L.CLOCK.reset()
            o = make(dist, p)
            i = 0
            mark = len(CTX.side)
            for b in parts:
                if y is None:
                    o.update(x[i:i + b])
                else:
                    o.update(x[i:i + b], y[i:i + b])
                i += b
                if computes and i < n:
                    try:
                        o.compute()
                    except Exception as e_:
                        if dist != 'TemplateBuild':
                            raise
            rt = result_terms(dist, o)
            rt2 = result_terms(dist, o)
            ranges[(tuple(parts), computes)] = list({c.get_id(): c for k_, c in CTX.side[mark:] if k_.startswith('int-range')}.values())
            del CTX.side[mark:]
            return o, rt, rt2
        base, rbase, rbase2 = feed([n], False)
        sbase = L.snapshot(base)
        for parts in compositions(n):
            for computes in (False, True):
                if parts == [n] and not computes:
                    continue
                o, rt, rt2 = feed(parts, computes)
                desc = f'{dist}(precision={p}) fed as batches {parts}{" with compute() after every update" if computes else ""}'
                wit = lambda m, parts=parts, computes=computes: dict(kind='split', dist=dist, precision=p, parts=parts, computes=computes, variant=variant, n=n,  # noqa: E731
                                                                      x=L.model_values(m, x), y=(L.model_values(m, y) if y is not None else None),
                                                                      key=dict(kind='split', dist=dist, computes=computes))
                bad = compare(sbase, L.snapshot(o), SKIP)
                pr.prove(z3.BoolVal(not bad and o.processed_traces == n), desc + f': accumulators and trace count equal those of the single batch (differing: {bad})', wit, sample=(parts == [1] * n and computes))
                badr = [nm for (nm, a), (_, b) in zip(rbase, rt) if tuple(S._w(a).shape) != tuple(S._w(b).shape) or not all(equal_elem(u, v) for u, v in zip(S._w(a).c.reshape(-1), S._w(b).c.reshape(-1)))]
                pr.prove(z3.BoolVal(not badr), desc + f': result equals the single-batch result (differing: {badr})', wit, sample=False)
                for c_ in ranges.get((tuple(parts), computes), [])[:64]:
                    pr.prove(c_, desc + ': arithmetic carried out in an integer dtype stays inside the dtype (no wrap-around)', wit, sample=False)
                badt = [nm for (nm, a), (_, b) in zip(rt, rt2) if not all(equal_elem(u, v) for u, v in zip(S._w(a).c.reshape(-1), S._w(b).c.reshape(-1)))]
                pr.prove(z3.BoolVal(not badt), desc + f': asking twice without new data returns the same answer (differing: {badt})', wit, sample=False)
                if res['failures']:
                    return
    explore(res, body, max_paths=800, timeout_ms=20000, precision=rnp.dtype(p), exact=True)
    return res


def replay(w):
    import random
    import numpy as np
    import scared
    import harness.C16 as R16
    dist, p, parts, n = w['dist'], w['precision'], w['parts'], w['n']
    rnd = random.Random(9)

    def mk():
        if dist == 'TTest':
            return scared.ttest.TTestThreadAccumulator(precision=np.dtype(p))
        import types
        holder = {}
        # reuse the real-code constructors of the C16 replay
        from scared import distinguishers as D
        if dist == 'CPA':
            return D.CPADistinguisher(precision=p)
        if dist == 'CPAAlt':
            return D.CPAAlternativeDistinguisher(precision=p)
        if dist == 'DPA':
            return D.DPADistinguisher(precision=p)
        if dist == 'ANOVA':
            return D.ANOVADistinguisher(partitions=[0, 1, 2], precision=p)
        if dist == 'NICV':
            return D.NICVDistinguisher(partitions=[0, 1, 2], precision=p)
        if dist == 'SNR-auto':
            return D.SNRDistinguisher(precision=p)
        if dist == 'SNR-2cls':
            return D.SNRDistinguisher(partitions=[0, 1], precision=p)
        if dist == 'MIA':
            return D.MIADistinguisher(bin_edges=[0, 2, 4, 6], partitions=[0, 1, 2])
        if dist == 'TemplateBuild':
            class TB(D.partitioned.PartitionedDistinguisherBase, D.template._TemplateBuildDistinguisherMixin):
                pass
            return TB(partitions=[0, 1], precision=p)
        class TM(D.template.TemplateAttackDistinguisherMixin):
            pass
        o = TM(partitions=[0, 1], precision=p)
        o.is_build = True
        o.templates = np.array([[1., 2.], [3., 1.]])
        o.pooled_covariance = np.array([[2., 0.5], [0.5, 1.]])
        o.pooled_covariance_inv = np.linalg.pinv(o.pooled_covariance)
        return o
    x0 = L.to_numpy(w['x'])
    y0 = L.to_numpy(w['y']) if w.get('y') else None
    tries = [x0] + [np.array([rnd.randrange(0, 7) for _ in range(x0.size)], dtype=x0.dtype).reshape(x0.shape) for _ in range(5)]
    tol = 2e-4 if p == 'float32' else 1e-9

    def run(X, pp, computes):
        o = mk()
        i = 0
        with np.errstate(all='ignore'):
            for b in pp:
                (o.update(X[i:i + b]) if y0 is None else o.update(X[i:i + b], y0[i:i + b]))
                i += b
                if computes and i < len(X):
                    try:
                        o.compute()
                    except Exception:
                        pass
            r = o.compute()
            if dist == 'TTest':
                r = np.stack([o.mean, o.var])
            if dist == 'TemplateBuild':
                r = np.concatenate([np.array(r).reshape(-1), np.array(o.pooled_covariance).reshape(-1)])
            r2 = o.compute()
            if dist == 'TTest':
                r2 = np.stack([o.mean, o.var])
            if dist == 'TemplateBuild':
                r2 = np.concatenate([np.array(r2).reshape(-1), np.array(o.pooled_covariance).reshape(-1)])
        return np.array(r, dtype='float64'), np.array(r2, dtype='float64'), o.processed_traces
    for X in tries:
        try:
            a, a2, na = run(X, [len(X)], False)
            b, b2, nb = run(X, parts, w['computes'])
        except Exception as ex:
            return dict(reproduced=True, detail=f'{dist}: {type(ex).__name__}: {ex} for batches {parts}')
        if na != nb or a.shape != b.shape or not np.allclose(a, b, rtol=tol, atol=tol, equal_nan=True) or not np.allclose(b, b2, rtol=tol, atol=tol, equal_nan=True):
            return dict(reproduced=True, detail=f'{dist}(precision={p}) traces={X.tolist()} data={None if y0 is None else y0.tolist()}: batches {parts} (computes={w["computes"]}) give {b.tolist()} (again: {b2.tolist()}), single batch gives {a.tolist()}')
    return dict(reproduced=False, detail='real code is split invariant on the model and seeded inputs')
