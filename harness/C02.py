"""C02 - Analysis.run on a Container equals the one-shot statistic on the whole trace set (DESIGN.md section 5, C02)."""
import sys
import itertools
import numpy as rnp
import z3

from vp import loader, symnp as S, elem as E
from vp.elem import CTX
from vp.run import new_result
from harness.common import explore
from harness import statlib as L
from harness.C01 import equal_elem
from harness.ths import FakeTHS

ID = 'C02'
LEVEL = 'model_checking'
META = dict(
    functions=['scared.container:Container/_TracesBatchIterable/_TracesBatchWrapper/set_batch_size/_compute_batch_size', 'scared.analysis.base:_BaseAnalysis.run/process/compute_intermediate_values/compute_results',
               'scared.analysis.base:BaseAttack.compute_results', 'scared.analysis._analysis:*', 'scared.selection_functions.base:SelectionFunction.__call__', 'scared.preprocesses._base:preprocess'],
    bounds=dict(quick='trace sets of 5 symbolic traces x 3 samples with their own metadata; batch sizes 1, 2, 5, 6 (int), 0.001 MB (float) and a size table; frames slice(0,2), [2,0] (descending list), Ellipsis; '
                      'preprocess chains (), (p1), (p1,p2), (p2,p1) of row-wise maps; 8 analysis classes (CPA/DPA/ANOVA/NICV/SNR/MIA, attack and reverse); one run() and two run() calls on two containers',
                thorough='7 traces, all 12 analysis classes'),
    assumptions=['exact reals; a TraceHeaderSet stand-in serves symbolic samples and per-trace metadata to the real Container', 'MIA uses explicit bin edges and concrete samples (its binning forks on every sample otherwise)',
                 'class sets explicit (frozen from the first batch otherwise, by design)'],
    outside=['trace sets above 7 traces in one query (the slicing arithmetic is pure integer code)', 'non row-wise preprocesses'],
    stubs=['TraceHeaderSet stand-in', 'symbolic clock', 'numba kernels interpreted'],
)
_m = {}
CLASSES_Q = ['CPAReverse', 'CPAAttack', 'DPAReverse', 'DPAAttack', 'ANOVAReverse', 'NICVAttack', 'SNRReverse', 'MIAReverse']
CLASSES_T = CLASSES_Q + ['ANOVAAttack', 'NICVReverse', 'SNRAttack', 'MIAAttack']


def prepare(tier, seed):
    L.load_distinguishers()
    mods = loader.load(['scared.container', 'scared.analysis', 'scared.models', 'scared.discriminants', 'scared.selection_functions.base', 'scared.preprocesses._base'])
    _m.update(container=mods[0], analysis=mods[1], models=mods[2], disc=mods[3], sf=mods[4], pp=mods[5])


def jobs(tier, seed):
    n = 5 if tier == 'quick' else 7
    cl = CLASSES_Q if tier == 'quick' else CLASSES_T
    js = [dict(name=f'{c}-{mode}', cls=c, mode=mode, n=n) for c in cl for mode in ('one-run', 'two-runs')]
    # class lists that leave some intermediate values undeclared (those traces must be ignored in every batch alike)
    js += [dict(name=f'{c}-one-run-sparse', cls=c, mode='one-run-sparse', n=n) for c in cl if c.startswith(('ANOVA', 'NICV', 'SNR'))]
    # attacks with a convergence step: the final results are still those of the whole trace set. In the two-run job (6 traces, step 2,
    # runs of 3 and 3) the first run ends off the step grid and, with batches of 2, the second ends on it one trace after its last point
    att = [c for c in CLASSES_Q if c.endswith('Attack') and not c.startswith('MIA')]          # the convergence bookkeeping is class independent: the quick classes in both tiers
    js += [dict(name=f'{c}-one-run-conv2', cls=c, mode='one-run-conv2', n=n) for c in att]
    js += [dict(name=f'{c}-two-runs-conv2', cls=c, mode='two-runs-conv2', n=6, split=3) for c in att]
    return js


def make_analysis(cls, convergence_step=None, precision='float64', sparse=False, two_classes=False):
    A, models, disc, sfm = _m['analysis'], _m['models'], _m['disc'], _m['sf']
    attack = cls.endswith('Attack')
    dpa = cls.startswith('DPA')
    model = models.Monobit(0) if (dpa or two_classes) else models.Value()
    if attack:
        @sfm.attack_selection_function(guesses=rnp.arange(3, dtype='uint8'))
        def sf(data, guesses):
            out = rnp.empty((len(data), len(guesses), data.shape[1]), dtype='uint8')
            for i, g in enumerate(guesses):
                out[:, i, :] = rnp.bitwise_xor(S._real_arg(S._w(data)), int(g))
            return S.const(out)
    else:
        @sfm.reverse_selection_function
        def sf(data):
            return data
    kw = dict(selection_function=sf, model=model, precision=precision)
    if attack:
        kw['discriminant'] = disc.maxabs
        kw['convergence_step'] = convergence_step
    if cls.startswith(('ANOVA', 'NICV', 'SNR', 'MIA')):
        kw['partitions'] = [0, 1] if two_classes else ([0, 2] if sparse else list(range(8)))
    if cls.startswith('MIA'):
        kw['bin_edges'] = [0, 2, 4, 6, 8]
        kw['precision'] = 'uint32'
    return getattr(A, cls)(**kw), sf, model


def p1(traces):
    return traces * 2 + 1


def p2(traces):
    return traces * traces - 3


def run_job(job):
    res = new_result(job['name'])
    cls, mode, n = job['cls'], job['mode'], job['n']
    cont = _m['container']
    pre = _m['pp'].preprocess
    P1, P2 = pre(p1), pre(p2)
    mia = cls.startswith('MIA')

    def body(ex, pr):
        x = S.const(rnp.array([[(3 * i + 2 * j) % 8 for j in range(3)] for i in range(n)], dtype='uint8')) if mia else S.sym_real('x', (n, 3), 'float64')
        data = S.const(rnp.array([[i % 2, (i // 2) % 2] for i in range(n)], dtype='uint8'))
        settings = [1, 2, n, n + 1, 0.001, [(0, 2), (2, 3), (10, 1)]]
        frames = [slice(0, 2), [2, 0], ..., [1, 2, 0]]          # [1, 2, 0]: a list whose sorting permutation is not its own inverse
        chains = [[], [P1], [P1, P2], [P2, P1]] if not mia else [[]]
        if 'conv' in mode:          # the convergence bookkeeping does not depend on frames or preprocesses: a thinner grid
            settings, frames, chains = [1, 2, n + 1], [slice(0, 2), ...], [[], [P1]]
        first = True
        for bs, frame, chain in itertools.product(settings, frames, chains):
            if 'conv' not in mode and (bs not in (2, n + 1)) and (frame is not frames[1] and frame is not frames[3] and chain is not chains[-1]) and (frames.index(frame) + chains.index(chain) + settings.index(bs)) % 2:
                continue            # thin the grid: every value of every dimension still occurs with several partners
            L.CLOCK.reset()
            cont.set_batch_size(bs)
            sparse = mode.endswith('sparse')
            conv = int(mode[-1]) if 'conv' in mode else None
            an, sf, model = make_analysis(cls, sparse=sparse, convergence_step=conv)
            if mode.startswith('one-run'):
                parts = [(0, n)]
            else:
                parts = [(0, job.get('split', 3)), (job.get('split', 3), n)]
            for a, b in parts:
                ths = FakeTHS(x[a:b], {'data': data[a:b]})
                c = cont.Container(ths, frame=frame, preprocesses=list(chain))
                mark = len(CTX.side)
                an.run(c)
                del CTX.side[mark:]
            # one-shot oracle: the same class fed once with everything
            ref, sf2, model2 = make_analysis(cls, sparse=sparse)
            xf = x if frame is ... else x[:, frame]
            for f in chain:
                xf = f(xf)
            inter = model2(sf2(data=data))
            ref.update(traces=xf, data=inter)
            expected = ref.compute()
            got = an.results
            desc = f'{cls}.run on a container (batch size {bs}, frame {frame}, {len(chain)} preprocess(es){", two run() calls" if mode.startswith("two-runs") else ""}{", convergence_step " + str(conv) if conv else ""}{", classes [0, 2] (values 1 and 3 undeclared)" if sparse else ""})'

            def wit(what):
                return lambda m, bs=bs, frame=frame, chain=chain: dict(kind='run', cls=cls, mode=mode, n=n, split=job.get('split', 3), bs=bs if not isinstance(bs, list) else 'table', frame=str(frame),
                                                                      chain=[f.__name__ for f in chain], what_failed=what, x=L.model_values(m, x), key=dict(kind='run', cls=cls, what=what, mode=mode))
            same = got is not None and tuple(S._w(got).shape) == tuple(S._w(expected).shape) and all(equal_elem(u, v) for u, v in zip(S._w(got).c.reshape(-1), S._w(expected).c.reshape(-1)))
            pr.prove(z3.BoolVal(bool(same) and an.processed_traces == n), desc + ': results == the same distinguisher applied once to all traces (frame, then preprocess chain in order) and model(selection_function(metadata))',
                     wit('results'), sample=first)
            if cls.endswith('Attack') and same:
                sc = _m['disc'].maxabs(an.results)
                oks = an.scores is not None and tuple(S._w(an.scores).shape) == tuple(S._w(sc).shape) and all(equal_elem(u, v) for u, v in zip(S._w(an.scores).c.reshape(-1), S._w(sc).c.reshape(-1)))
                pr.prove(z3.BoolVal(bool(oks)), desc + ': scores == discriminant(results)', wit('scores'), sample=False)
            first = False
            if res['failures']:
                break
        cont.set_batch_size(None)
    explore(res, body, max_paths=64, timeout_ms=20000, exact=True)
    return res


def replay(w):
    import random
    import numpy as np
    import scared
    from scared import traces as tr
    rnd = random.Random(10)
    cls, n, mode = w['cls'], w['n'], w['mode']
    mia = cls.startswith('MIA')
    x0 = L.to_numpy(w['x']).astype('float64') if not mia else np.array([[(3 * i + 2 * j) % 8 for j in range(3)] for i in range(n)], dtype='uint8')
    data = np.array([[i % 2, (i // 2) % 2] for i in range(n)], dtype='uint8')
    frame = eval(w['frame']) if w['frame'] != 'Ellipsis' else ...
    bs = [(0, 2), (2, 3), (10, 1)] if w['bs'] == 'table' else w['bs']
    P = {'p1': scared.preprocess(p1), 'p2': scared.preprocess(p2)}
    chain = [P[nm] for nm in w['chain']]

    def mk():
        attack = cls.endswith('Attack')
        model = scared.Monobit(0) if cls.startswith('DPA') else scared.Value()
        if attack:
            @scared.attack_selection_function(guesses=np.arange(3, dtype='uint8'))
            def sf(data, guesses):
                out = np.empty((len(data), len(guesses), data.shape[1]), dtype='uint8')
                for i, g in enumerate(guesses):
                    out[:, i, :] = np.bitwise_xor(data, g)
                return out
        else:
            @scared.reverse_selection_function
            def sf(data):
                return data
        kw = dict(selection_function=sf, model=model, precision='float64')
        if attack:
            kw['discriminant'] = scared.maxabs
            if 'conv' in mode and conv_ok[0]:
                kw['convergence_step'] = int(mode[-1])
        if cls.startswith(('ANOVA', 'NICV', 'SNR', 'MIA')):
            kw['partitions'] = [0, 2] if mode.endswith('sparse') else list(range(8))
        if mia:
            kw['bin_edges'] = [0, 2, 4, 6, 8]
            kw['precision'] = 'uint32'
        return getattr(scared, cls)(**kw), sf, model
    tries = [x0] + ([np.array([rnd.uniform(-3, 3) for _ in range(x0.size)]).reshape(x0.shape) for _ in range(3)] if not mia else [])
    conv_ok = [True]
    for X in tries:
        scared.set_batch_size(bs)
        try:
            conv_ok[0] = True
            an, sf, model = mk()
            conv_ok[0] = False           # the one-shot reference has no convergence step
            parts = [(0, n)] if mode.startswith("one-run") else [(0, w.get("split", 3)), (w.get("split", 3), n)]
            with np.errstate(all='ignore'):
                for a, b in parts:
                    ths = tr.read_ths_from_ram(samples=X[a:b], data=data[a:b])
                    an.run(scared.Container(ths, frame=frame, preprocesses=list(chain)))
                ref, sf2, model2 = mk()
                xf = X if frame is ... else X[:, frame]
                for f in chain:
                    xf = f(xf)
                ref.update(traces=xf, data=model2(sf2(data=data)))
                exp = np.array(ref.compute(), dtype='float64')
        finally:
            scared.set_batch_size(None)
        got = np.array(an.results, dtype='float64')
        if got.shape != exp.shape or not np.allclose(got, exp, rtol=1e-9, atol=1e-9, equal_nan=True):
            return dict(reproduced=True, detail=f'{cls} (batch size {w["bs"]}, frame {w["frame"]}, chain {w["chain"]}, {mode}) on traces {X.tolist()}: results {got.tolist()} but one-shot gives {exp.tolist()}')
        if cls.endswith('Attack') and not np.allclose(np.array(an.scores), scared.maxabs(np.array(an.results)), equal_nan=True):
            return dict(reproduced=True, detail='scores differ from discriminant(results)')
    return dict(reproduced=False, detail='real run() agrees with the one-shot statistic')
