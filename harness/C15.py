"""C15 - leakage models and discriminants compute their definitions on every value (DESIGN.md section 5, C15)."""
import math
import itertools
import numpy as rnp
import z3

from vp import loader, symnp as S, elem as E
from vp.elem import CTX
from vp.run import new_result
from harness.common import Prover, any_differs, model_bytes, explore, guarded

ID = 'C15'
LEVEL = 'model_checking'
META = dict(
    functions=['scared.models:_fhw8', 'scared.models:_fhw16', 'scared.models:_fhw32', 'scared.models:_fhw64', 'scared.models:HammingWeight', 'scared.models:Monobit',
               'scared.models:Value', 'scared.models:Model.__call__', 'scared.discriminants:nanmax', 'scared.discriminants:maxabs', 'scared.discriminants:opposite_min',
               'scared.discriminants:nansum', 'scared.discriminants:abssum', 'scared.discriminants:discriminant'],
    bounds=dict(quick='HammingWeight: one query per dtype over the whole 8/16/32/64-bit domain (numba kernels interpreted with numba typing); nb_words in 1..3 on shapes (4,), (2,3), '
                      '(2,3,4), every axis; Monobit: every (dtype, bit) whose mask fits the dtype; discriminants: float arrays of shape (2,3) and (2,2,2), every axis, '
                      'every NaN pattern (explored by forking), other entries symbolic reals',
                thorough='adds shape (3,2,2) for the discriminants and nb_words up to 4'),
    assumptions=['numba scalar typing is taken from numba\'s own typing context; the interpreted kernels are compared with the real compiled kernels on boundary values in every run',
                 'floats are reals plus concrete NaN flags (all-NaN slices return NaN for the max-type discriminants)'],
    outside=['infinite entries in discriminant inputs', 'Monobit(b) when 2**b does not fit the dtype (numpy 2 raises OverflowError: a refusal)'],
    stubs=['numba.vectorize / njit: kernels interpreted in numba mode'],
)
_mod = {}


def prepare(tier, seed):
    m, d = loader.load(['scared.models', 'scared.discriminants'])
    rm, = loader.load_real(['scared.models'])
    _mod.update(models=m, disc=d, real_models=rm)


def jobs(tier, seed):
    js = [dict(name=f'popcount-{dt}', kind='pop', dt=dt) for dt in ('uint8', 'uint16', 'uint32', 'uint64')]
    js.append(dict(name='hw-groups', kind='groups', kmax=3 if tier == 'quick' else 4))
    js.append(dict(name='monobit-value', kind='mono'))
    shapes = [(2, 3), (2, 2, 2)] + ([(3, 2, 2)] if tier == 'thorough' else [])
    for fn in ('nanmax', 'maxabs', 'opposite_min', 'nansum', 'abssum'):
        for sh in shapes:
            js.append(dict(name=f'disc-{fn}-{"x".join(map(str, sh))}', kind='disc', fn=fn, shape=list(sh)))
        js.append(dict(name=f'disc-{fn}-infinite', kind='disc-inf', fn=fn))
    return js


def popcount(x, w_out=32):
    """Number of one bits, summed as a balanced tree at the minimal width and zero-extended to w_out bits."""
    n = x.size()
    wmin = n.bit_length()
    terms = [z3.ZeroExt(wmin - 1, z3.Extract(i, i, x)) for i in range(n)]
    while len(terms) > 1:
        terms = [terms[i] + terms[i + 1] if i + 1 < len(terms) else terms[i] for i in range(0, len(terms), 2)]
    return z3.ZeroExt(w_out - wmin, terms[0]) if w_out > wmin else terms[0]


def job_pop(job, res):
    dt = rnp.dtype(job['dt'])
    M = _mod['models']
    pr = Prover(res, timeout_ms=20000)
    # translator validation: interpreted kernel == real compiled kernel on boundary values
    w = dt.itemsize * 8
    vals = rnp.array([0, 1, 2 ** w - 1, 2 ** (w - 1), 2 ** (w - 1) - 1, 0xA5 << (w - 8), 0x0101010101010101 & (2 ** w - 1), 0xFF00FF00FF00FF00 & (2 ** w - 1)], dtype=dt)
    real = _mod['real_models'].HammingWeight(expected_dtype=dt)(vals)
    shim = M.HammingWeight(expected_dtype=dt)(S.const(vals))
    if list(S._w(shim).typed()) == list(real) and S._w(shim).dtype == real.dtype:
        res['validated'] += len(vals)
    else:
        res['unknown'].append(f'interpreted kernel disagrees with compiled kernel on {vals.tolist()}: {S._w(shim).typed().tolist()} vs {real.tolist()}')
    # table lemma (all 256 bytes in one query), then the data flow over the table symbol: the kernel must sum the table over exactly the bytes of x
    t = M._HW_LUT.typed()
    b = z3.BitVec('b', 8)
    pr.prove(z3.BoolVal(t.shape == (256,)) if t.shape != (256,) else z3.Select(S._z3_table(t, z3.BitVecSort(8)), b) == popcount(b, t.dtype.itemsize * 8),
             'forall byte b: _HW_LUT[b] == number of one bits of b', lambda m: dict(kind='lut', index=m.eval(b, model_completion=True).as_long(), key=dict(kind='lut')))
    f = S.register_table(M._HW_LUT, 'HW')
    x = S.sym_bv('x', (2,), dt)
    out = M.HammingWeight(expected_dtype=dt)(x)
    S.unregister_tables()
    ok = tuple(out.shape) == (2,) and out.dtype == rnp.uint32
    for i in range(2):
        exp = None
        for j in range(dt.itemsize):
            term = z3.ZeroExt(32 - t.dtype.itemsize * 8, f(z3.Extract(8 * j + 7, 8 * j, x.c[i]))) if t.dtype.itemsize * 8 < 32 else f(z3.Extract(8 * j + 7, 8 * j, x.c[i]))
            exp = term if exp is None else exp + term
        nfail = len(res['failures'])
        good = pr.prove(out.c[i] == exp if ok else z3.BoolVal(False),
                        f'HammingWeight({dt})(x)[{i}] == sum over the {dt.itemsize} bytes of x of _HW_LUT[byte] (= number of one bits of x by the table lemma), for all {w}-bit x',
                        lambda m: dict(kind='pop', dt=str(dt), value=model_bytes(m, x), key=dict(kind='pop', dt=str(dt))))
        if not good and ok and len(res['failures']) > nfail:
            # the kernel does not read the table byte by byte (restructured code): decide the definition directly on the bit level
            del res['failures'][nfail:]
            res['obligations'] -= 1
            res['nontrivial'] -= 1
            x2 = S.sym_bv('x', (2,), dt)
            out2 = M.HammingWeight(expected_dtype=dt)(x2)
            pr.prove(out2.c[i] == popcount(x2.c[i]), f'HammingWeight({dt})(x)[{i}] == number of one bits of x, for all {w}-bit x (direct bit-level query)',
                     lambda m: dict(kind='pop', dt=str(dt), value=model_bytes(m, x2), key=dict(kind='pop', dt=str(dt))))


def job_groups(job, res):
    M = _mod['models']
    pr = Prover(res)
    f = S.register_table(M._HW_LUT, 'HW')      # table lemma: job popcount-uint8

    def pc(t):
        return f(t)
    for shape in ((4,), (2, 3), (2, 3, 4), (2, 2, 4), (2, 2, 2, 2)):
        for axis in list(range(len(shape))) + [-1]:
            for k in range(1, job['kmax'] + 1):
                ax = axis % len(shape)
                if shape[ax] < k:
                    continue
                x = S.sym_bv('d', shape, 'uint8')
                desc = f'HammingWeight(nb_words={k})(data{shape}, axis={axis}) == sum of popcounts over groups of {k} consecutive words; other dimensions kept'
                wit = lambda m, shape=shape, axis=axis, k=k, x=x: dict(kind='groups', shape=list(shape), axis=axis, k=k, value=model_bytes(m, x), key=dict(kind='groups', k=k))  # noqa: E731
                done, out = guarded(pr, desc, wit, lambda: M.HammingWeight(nb_words=k)(x, axis=axis))
                if not done:
                    continue
                fs = list(shape)
                fs[ax] = shape[ax] // k
                exp = rnp.empty(tuple(fs), dtype=object)
                for idx in rnp.ndindex(tuple(fs)):
                    acc = z3.BitVecVal(0, 32)
                    for j in range(k):
                        src = list(idx)
                        src[ax] = idx[ax] * k + j
                        acc = acc + pc(x.c[tuple(src)])
                    exp[idx] = acc
                ok = tuple(out.shape) == tuple(fs) and out.dtype == rnp.uint32
                pr.prove(z3.Not(any_differs(S.terms(out), list(exp.reshape(-1)))) if ok else z3.BoolVal(False), desc, wit, sample=(k == 2 and axis == 1))
    S.unregister_tables()


def job_mono(job, res):
    M = _mod['models']
    pr = Prover(res)
    for dt in ('uint8', 'int8', 'uint16', 'int16', 'uint32', 'int64'):
        d = rnp.dtype(dt)
        for b in range(9):
            if 2 ** b > rnp.iinfo(d).max:
                continue
            for shape in ((3,), (2, 2)):
                x = S.sym_bv('v', shape, dt)
                out = M.Monobit(b)(x)
                ok = tuple(out.shape) == shape and out.dtype == rnp.uint8
                exp = [z3.ZeroExt(7, z3.Extract(b, b, t)) for t in S.terms(x)]
                pr.prove(z3.Not(any_differs(S.terms(out), exp)) if ok else z3.BoolVal(False), f'Monobit({b})(data {dt}{shape}) == bit {b} of every value',
                         lambda m, dt=dt, b=b, shape=shape: dict(kind='mono', dt=dt, bit=b, value=model_bytes(m, x), key=dict(kind='mono')), sample=(b == 3 and dt == 'uint8'))
    for dt in ('uint8', 'int32', 'float32'):
        x = S.sym_bv('v', (2, 3), dt) if dt != 'float32' else S.sym_real('v', (2, 3), dt)
        out = M.Value()(x)
        pr.prove(z3.BoolVal(out is x or (tuple(out.shape) == (2, 3) and all(a is b or (E.is_sym(a) and a.eq(b)) for a, b in zip(S.terms(out), S.terms(x))))),
                 f'Value()(data {dt}) returns the data unchanged', lambda m: dict(kind='value', key=dict(kind='value')))


def job_disc(job, res):
    fn = getattr(_mod['disc'], job['fn'])
    shape = tuple(job['shape'])
    name = job['fn']

    def body(ex, pr):
        x = S.sym_real('x', shape, 'float64')
        nanmask = rnp.zeros(shape, dtype=bool)
        for idx in rnp.ndindex(shape):
            if ex.choose(2) == 1:
                nanmask[idx] = True
                x.c[idx] = math.nan
        for axis in list(range(len(shape))) + [-1]:
            ax = axis % len(shape)
            out = fn(x, axis=axis) if axis != -1 else fn(x)
            fs = tuple(s_ for i, s_ in enumerate(shape) if i != ax)
            ok = tuple(out.shape) == fs
            if not ok:
                pr.prove(z3.BoolVal(False), f'{name}(data{shape}, axis={axis}) has shape {fs}', lambda m: dict(kind='disc', fn=name, shape=list(shape), axis=axis, nan=nanmask.tolist(), value=None, key=dict(kind='disc', fn=name)))
                continue
            goals = []
            for idx in rnp.ndindex(fs):
                lane = []
                for j in range(shape[ax]):
                    src = list(idx)
                    src.insert(ax, j)
                    if not nanmask[tuple(src)]:
                        lane.append(x.c[tuple(src)])
                r = out.c[idx]
                tr = {'nanmax': lambda v: v, 'maxabs': lambda v: z3.If(v >= 0, v, -v), 'opposite_min': lambda v: -v, 'nansum': lambda v: v, 'abssum': lambda v: z3.If(v >= 0, v, -v)}[name]
                vals = [tr(v) for v in lane]
                if name in ('nansum', 'abssum'):
                    e_ = z3.Sum(vals) if vals else z3.RealVal(0)
                    goals.append(z3.BoolVal(False) if E.is_special(r) else (E.R(r) == e_))
                else:
                    if not vals:
                        goals.append(z3.BoolVal(E.is_special(r) and r != r))
                    elif E.is_special(r):
                        goals.append(z3.BoolVal(False))
                    else:
                        goals.append(z3.And(z3.And(*[E.R(r) >= v for v in vals]), z3.Or(*[E.R(r) == v for v in vals])))
            pr.prove(z3.And(*goals), f'{name}(data{shape}, axis={axis}) reduces exactly that axis ignoring NaN (NaN pattern {nanmask.astype(int).tolist()})',
                     lambda m, axis=axis: dict(kind='disc', fn=name, shape=list(shape), axis=axis, nan=nanmask.tolist(),
                                               value=[float(m.eval(t, model_completion=True).as_fraction()) if E.is_sym(t) else None for t in S.terms(x)], key=dict(kind='disc', fn=name)),
                     sample=(int(nanmask.sum()) == 1 and axis == 0))
    explore(res, body, max_paths=5000, timeout_ms=20000)


INF_PATTERNS = [('+inf', 's', 'nan'), ('+inf', '-inf', 's'), ('-inf', 's', 's'), ('s', '+inf', '+inf'), ('-inf', 'nan', '-inf'), ('s', 's', 'nan')]


def job_disc_inf(job, res):
    """Infinite entries: they take part in the reduction with the usual extended-real rules (only NaN is ignored)."""
    fn = getattr(_mod['disc'], job['fn'])
    name = job['fn']

    def body(ex, pr):
        for pat in INF_PATTERNS:
            x = S.sym_real('x', (2, len(pat)), 'float64')          # two rows: row 1 carries the pattern, row 0 stays finite
            for i, p_ in enumerate(pat):
                if p_ != 's':
                    x.c[1, i] = {'nan': math.nan, '+inf': math.inf, '-inf': -math.inf}[p_]
            syms = [E.R(x.c[1, i]) for i, p_ in enumerate(pat) if p_ == 's']
            wit = lambda m, pat=pat, x=x: dict(kind='disc-inf', fn=name, pattern=list(pat), value=[float(m.eval(t, model_completion=True).as_fraction()) if E.is_sym(t) else None for t in S.terms(x)], key=dict(kind='disc-inf', fn=name))  # noqa: E731
            done, out = guarded(pr, f'{name}({list(pat)})', wit, lambda: fn(x))
            if not done:
                continue
            r = S._w(out).c.reshape(-1)[1]
            pinf, minf = '+inf' in pat, '-inf' in pat
            tr = {'nanmax': lambda v: v, 'maxabs': lambda v: z3.If(v >= 0, v, -v), 'opposite_min': lambda v: -v, 'nansum': lambda v: v, 'abssum': lambda v: z3.If(v >= 0, v, -v)}[name]
            if name in ('maxabs', 'abssum'):
                want = math.inf if (pinf or minf) else None
            elif name == 'nanmax':
                want = math.inf if pinf else (-math.inf if (minf and not syms) else None)
            elif name == 'opposite_min':
                want = math.inf if minf else (-math.inf if (pinf and not syms) else None)
            else:
                want = math.nan if (pinf and minf) else (math.inf if pinf else (-math.inf if minf else None))
            if want is not None:
                ok = E.is_special(r) and ((r != r) if want != want else r == want)
                goal = z3.BoolVal(bool(ok))
            elif E.is_special(r) or not syms:
                goal = z3.BoolVal(False)
            elif name in ('nansum', 'abssum'):
                goal = E.R(r) == z3.Sum([tr(v) for v in syms])
            else:
                vals = [tr(v) for v in syms]
                goal = z3.And(z3.And(*[E.R(r) >= v for v in vals]), z3.Or(*[E.R(r) == v for v in vals]))
            pr.prove(goal, f'{name}({list(pat)}) (s = any real): infinite entries take part in the reduction, only NaN is ignored (result {r if not E.is_sym(r) else "symbolic"})', wit, sample=False)
    explore(res, body, max_paths=64, timeout_ms=20000)


def run_job(job):
    res = new_result(job['name'])
    CTX.reset()
    {'pop': job_pop, 'groups': job_groups, 'mono': job_mono, 'disc': job_disc, 'disc-inf': job_disc_inf}[job['kind']](job, res)
    return res


def replay(w):
    import numpy as np
    import scared
    from scared import models, discriminants
    if w['kind'] == 'lut':
        bad = [i for i in range(256) if int(models._HW_LUT[i]) != bin(i).count('1')]
        return dict(reproduced=bool(bad), detail=f'_HW_LUT wrong at {bad[:8]}')
    if w['kind'] == 'pop':
        v = np.array(w['value'], dtype=w['dt'])
        got = models.HammingWeight(expected_dtype=w['dt'])(v)
        exp = [bin(int(a)).count('1') for a in v]
        return dict(reproduced=[int(g) for g in got] != exp, detail=f'HammingWeight({w["dt"]})({[hex(int(a)) for a in v]}) = {got.tolist()} expected {exp}')
    if w['kind'] == 'groups':
        v = np.array(w['value'], dtype='uint8')
        try:
            got = models.HammingWeight(nb_words=w['k'])(v, axis=w['axis'])
        except Exception as e_:
            return dict(reproduced=True, detail=f'HammingWeight(nb_words={w["k"]})(data of shape {v.shape}, axis={w["axis"]}) raised {type(e_).__name__}: {e_}')
        ax = w['axis'] % v.ndim
        pc = np.vectorize(lambda a: bin(int(a)).count('1'))(v)
        n = v.shape[ax] // w['k']
        exp = np.add.reduce(np.moveaxis(pc, ax, 0)[:n * w['k']].reshape((n, w['k']) + np.moveaxis(pc, ax, 0).shape[1:]), axis=1)
        exp = np.moveaxis(exp, 0, ax)
        return dict(reproduced=got.shape != exp.shape or (got != exp).any(), detail=f'nb_words={w["k"]} axis={w["axis"]} data={v.tolist()}: {got.tolist()} expected {exp.tolist()}')
    if w['kind'] == 'mono':
        v = np.array(w['value'], dtype=w['dt'])
        got = models.Monobit(w['bit'])(v)
        exp = ((v.astype('int64') >> w['bit']) & 1).astype('uint8')
        return dict(reproduced=(got != exp).any(), detail=f'Monobit({w["bit"]})({v.tolist()}) = {got.tolist()} expected {exp.tolist()}')
    if w['kind'] == 'disc-inf':
        import math
        n_ = len(w['pattern'])
        vals = []
        for p_, x in zip(w['pattern'], w['value'][n_:]):
            vals.append({'nan': math.nan, '+inf': math.inf, '-inf': -math.inf}.get(p_, x))
        v = np.array([w['value'][:n_], vals], dtype='float64')
        fn = getattr(discriminants, w['fn'])
        with np.errstate(all='ignore'):
            got = float(fn(v)[1])
        tr = {'nanmax': lambda a: a, 'maxabs': abs, 'opposite_min': lambda a: -a, 'nansum': lambda a: a, 'abssum': abs}[w['fn']]
        lane = [tr(a) for a in vals if a == a]
        if w['fn'] in ('nansum', 'abssum'):
            exp = math.nan if (math.inf in lane and -math.inf in lane) else sum(lane)
        else:
            exp = max(lane) if lane else math.nan
        bad = not ((got != got and exp != exp) or got == exp or (math.isfinite(got) and math.isfinite(exp) and abs(got - exp) <= 1e-9 * max(1.0, abs(exp))))
        return dict(reproduced=bool(bad), detail=f'{w["fn"]}({vals}) = {got} expected {exp}')
    if w['kind'] == 'disc':
        if w['value'] is None:
            return dict(reproduced=False, detail='shape failure is only reported from the symbolic run')
        shape = tuple(w['shape'])
        v = np.array([np.nan if x is None else x for x in w['value']], dtype='float64').reshape(shape)
        v[np.array(w['nan'])] = np.nan
        fn = getattr(discriminants, w['fn'])
        got = fn(v, axis=w['axis'])
        ax = w['axis'] % v.ndim
        tr = {'nanmax': lambda a: a, 'maxabs': np.abs, 'opposite_min': lambda a: -a, 'nansum': lambda a: a, 'abssum': np.abs}[w['fn']]
        exp = np.empty(got.shape)
        for idx in np.ndindex(got.shape):
            lane = [tr(v[tuple(list(idx[:ax]) + [j] + list(idx[ax:]))]) for j in range(shape[ax])]
            lane = [a for a in lane if a == a]
            exp[idx] = (sum(lane) if w['fn'] in ('nansum', 'abssum') else (max(lane) if lane else np.nan))
        bad = not np.allclose(got, exp, equal_nan=True, rtol=1e-9, atol=1e-12)
        return dict(reproduced=bool(bad), detail=f'{w["fn"]}({v.tolist()}, axis={w["axis"]}) = {got.tolist()} expected {exp.tolist()}')
    return dict(reproduced=False, detail='n/a')
