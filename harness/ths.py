"""A TraceHeaderSet stand-in serving symbolic samples and metadata to the real Container / analysis code."""
import numpy as rnp
import estraces

from vp import symnp as S


class _Samples:
    SUPPORTED_INDICES_TYPES = estraces.Samples.SUPPORTED_INDICES_TYPES

    def __init__(self, arr):
        self.arr = S._w(arr)

    def __getitem__(self, key):
        if isinstance(key, tuple):
            rows, frame = key[0], (key[1] if len(key) > 1 else ...)
            a = self.arr[rows]
            if frame is ... or frame is None:
                return a
            if a.ndim == 1:
                return a[frame]
            return a[:, frame]
        return self.arr[key]

    def __len__(self):
        return len(self.arr)

    @property
    def shape(self):
        return self.arr.shape

    @property
    def dtype(self):
        return self.arr.dtype


class _Meta(dict):
    pass


class _Trace:
    def __init__(self, ths, i):
        self._ths, self._i = ths, i
        self.samples = _RowSamples(ths._samples[i])
        for k, v in ths._metas.items():
            setattr(self, k, v[i])
        self.metadatas = {k: v[i] for k, v in ths._metas.items()}

    @property
    def id(self):
        return self._ths._ids[self._i]


class _RowSamples:
    def __init__(self, row):
        self.row = row

    def __getitem__(self, key):
        if key is ... or key is None:
            return self.row
        return self.row[key]

    def __len__(self):
        return len(self.row)

    @property
    def dtype(self):
        return self.row.dtype


class FakeTHS(estraces.TraceHeaderSet):
    """samples: shim array (n, L); metas: {name: shim array (n, ...)}."""

    def __init__(self, samples, metas, ids=None):
        self._samples = S._w(samples)
        self._metas = {k: S._w(v) for k, v in metas.items()}
        self._ids = list(range(len(self._samples))) if ids is None else list(ids)
        self.served = []      # log of (kind, row ids) for order / exactly-once checks

    def __len__(self):
        return len(self._samples)

    def __getitem__(self, key):
        if isinstance(key, (int, rnp.integer)):
            return _Trace(self, int(key))
        idx = list(range(len(self)))[key] if isinstance(key, slice) else [int(k) for k in key]
        sub = FakeTHS(self._samples[idx] if idx else self._samples[0:0], {k: (v[idx] if idx else v[0:0]) for k, v in self._metas.items()}, [self._ids[i] for i in idx])
        sub.served = self.served
        return sub

    def __iter__(self):
        for i in range(len(self)):
            yield _Trace(self, i)

    @property
    def samples(self):
        self.served.append(('samples', tuple(self._ids)))
        return _Samples(self._samples)

    @property
    def metadatas(self):
        self.served.append(('metadatas', tuple(self._ids)))
        return _Meta(self._metas)

    @property
    def headers(self):
        return {}

    @property
    def name(self):
        return 'fake'

    def __str__(self):
        return f'FakeTHS({len(self)} traces)'

    __repr__ = __str__
