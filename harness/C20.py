"""C20 - Synchronizer output is exactly the accepted traces, in order, with their own metadata (DESIGN.md section 5, C20)."""
import os
import tempfile
import shutil
import numpy as rnp
import z3
import estraces

from vp import loader, symnp as S, elem as E
from vp.elem import CTX
from vp.run import new_result
from harness.common import explore
from harness.ths import FakeTHS

ID = 'C20'
LEVEL = 'model_checking'
META = dict(
    functions=['scared.synchronization:Synchronizer.__init__/_check_input_ths/_check_output/_check_function/run', 'scared.synchronization:_ErrorCounter.error_occur'],
    bounds=dict(quick='every accept / raise / return-None pattern of the user function over N = 1..5 input traces (3^N patterns, explored by forking), returned data of the same and of a different length; '
                      'step lemma with SYMBOLIC counter values (processed p >= 0, synchronized s >= 0) over 2 traces; real ETS writer (str and Path outputs) on 7 patterns incl. all rejected',
                thorough='N up to 9'),
    assumptions=['the writer is a recording TraceHeaderSet stand-in for the pattern exploration; the real ETSWriter is used on the bounded concrete runs',
                 'an exception from get_reader() when nothing was written (no file exists) is tolerated: the property speaks about the counters in that case'],
    outside=['more than 7 traces per run', 'KeyboardInterrupt from the user function'],
    stubs=['recording writer', 'warnings emitted by the consecutive-error counter are ignored'],
)
_m = {}


def prepare(tier, seed):
    _m['sync'], = loader.load(['scared.synchronization'])


def jobs(tier, seed):
    nmax = 5 if tier == 'quick' else 9
    js = [dict(name=f'patterns-n{n}', kind='patterns', n=n) for n in range(1, nmax + 1)]
    # histories: the documented workflow check(nb_traces) -> run() on the same object
    js += [dict(name=f'patterns-n{n}-after-check', kind='patterns', n=n, pre_check=2) for n in range(1, (3 if tier == 'quick' else 6) + 1)]
    return js + [dict(name='step-lemma', kind='step'), dict(name='ets-writer', kind='ets')]


class RecWriter(estraces.TraceHeaderSet):
    def __init__(self):
        self.rows, self.closed, self.reader = [], 0, object()

    def write_trace_object_and_points(self, trace_object, points, index=None):
        self.rows.append((index, trace_object.id, points, dict(trace_object.metadatas)))

    def close(self):
        self.closed += 1

    def get_reader(self):
        return self.reader

    def __len__(self):
        return len(self.rows)


def _input(n):
    return FakeTHS(S.const(rnp.arange(n * 3, dtype='uint8').reshape(n, 3)), {'plaintext': S.const(rnp.arange(n * 2, dtype='uint8').reshape(n, 2) + 100)})


def job_patterns(job, res):
    n = job['n']
    Sy = _m['sync']

    def body(ex, pr):
        import warnings
        warnings.simplefilter('ignore')
        pattern = []
        ret = {}

        phase = ['run']

        def fn(trace_object):
            if phase[0] == 'check':            # during check() the function accepts every sampled trace
                return rnp.array([trace_object.id], dtype='int32')
            c = ex.choose(3)
            pattern.append('ARN'[c])
            if c == 1:
                raise RuntimeError('user function failure')
            if c == 2:
                return None
            pts = rnp.array([trace_object.id * 10 + j for j in range(2 if trace_object.id % 2 else 4)], dtype='int32')      # same or different length than the input
            ret[trace_object.id] = pts
            return pts
        ths = _input(n)
        out = RecWriter()
        sy = Sy.Synchronizer(ths, out, fn)
        if job.get('pre_check'):
            phase[0] = 'check'
            sy.check(nb_traces=job['pre_check'])
            phase[0] = 'run'
        r = sy.run()
        acc = [i for i, c in enumerate(pattern) if c == 'A']
        okrows = len(out.rows) == len(acc) and all(idx == j and tid == i and pts is ret[i] and [int(v) for v in S._w(meta['plaintext']).typed()] == [100 + 2 * i, 101 + 2 * i]
                                                  for j, (i, (idx, tid, pts, meta)) in enumerate(zip(acc, out.rows)))
        okcnt = sy.processed_counter == n and sy.synchronized_counter == len(acc) and len(pattern) == n
        refused = False
        try:
            sy.run()
        except Sy.SynchronizerError:
            refused = True
        except Exception:
            refused = False
        ok = okrows and okcnt and refused and out.closed == 1 and r is out.reader and sy.processed_counter == n and len(out.rows) == len(acc)
        pr.prove(z3.BoolVal(bool(ok)), f'{"check(" + str(job["pre_check"]) + ") then run(), " if job.get("pre_check") else ""}pattern {"".join(pattern)} (A accept, R raise, N None): written rows == accepted traces in order with own metadata and points; counters ({sy.processed_counter}, {sy.synchronized_counter}) == ({n}, {len(acc)}); second run() refused',
                 lambda m: dict(kind='pattern', pattern=''.join(pattern), pre_check=job.get('pre_check', 0), key=dict(kind='pattern')), sample=(pattern == list('ANR'[:n])))
    explore(res, body, max_paths=25000, timeout_ms=10000)        # 3^n patterns: 19683 for n = 9


def job_step(job, res):
    Sy = _m['sync']

    def body(ex, pr):
        import warnings
        warnings.simplefilter('ignore')
        p = E.register(z3.Int('p'))
        s = E.register(z3.Int('s'))
        ex.assume(z3.And(p >= 0, s >= 0))
        pattern = []

        def fn(trace_object):
            c = ex.choose(3)
            pattern.append('ARN'[c])
            if c == 1:
                raise RuntimeError('x')
            return None if c == 2 else rnp.array([trace_object.id])
        out = RecWriter()
        sy = Sy.Synchronizer(_input(2), out, fn)
        sy.processed_counter = S.from_terms([p], 'int64')[0]
        sy.synchronized_counter = S.from_terms([s], 'int64')[0]
        sy._err_counter = None
        sy.run()
        acc = [i for i, c in enumerate(pattern) if c == 'A']
        goals = [S._w(sy.processed_counter).c.reshape(-1)[0] == p + 2, S._w(sy.synchronized_counter).c.reshape(-1)[0] == s + len(acc)]
        for j, (idx, tid, pts, meta) in enumerate(out.rows):
            goals.append(S._w(idx).c.reshape(-1)[0] == s + j)
            goals.append(z3.BoolVal(tid == acc[j]))
        pr.prove(z3.And(*goals) if len(out.rows) == len(acc) else z3.BoolVal(False),
                 f'from ANY counter values (p, s), pattern {"".join(pattern)}: write indexes s, s+1, ...; counters become p + 2 and s + {len(acc)}',
                 lambda m: dict(kind='step', pattern=''.join(pattern), p=m.eval(p, model_completion=True).as_long(), s=m.eval(s, model_completion=True).as_long(), key=dict(kind='step')))
    explore(res, body, max_paths=100, timeout_ms=10000)


def run_real(SyncCls, ErrCls, pattern, as_path, tmp, pre_check=0):
    """Real estraces input, real ETS writer.  Returns a list of problems (empty = fine)."""
    import warnings
    import pathlib
    warnings.simplefilter('ignore')
    n = len(pattern)
    ths = estraces.read_ths_from_ram(samples=rnp.arange(n * 3, dtype='uint8').reshape(n, 3), plaintext=(rnp.arange(n * 2, dtype='uint8').reshape(n, 2) + 100))
    seen = []

    phase = ['run']

    def fn(trace_object):
        if phase[0] == 'check':
            return rnp.array([1, 2], dtype='uint8')
        i = len(seen)
        seen.append(i)
        c = pattern[i]
        if c == 'R':
            raise RuntimeError('boom')
        if c == 'N':
            return None
        return rnp.array([i * 10 + j for j in range(2)], dtype='uint8')
    fnm = os.path.join(tmp, f'out_{"".join(pattern)}_{int(as_path)}.ets')
    sy = SyncCls(ths, pathlib.Path(fnm) if as_path else fnm, fn, overwrite=True)
    acc = [i for i, c in enumerate(pattern) if c == 'A']
    problems = []
    if pre_check:
        phase[0] = 'check'
        sy.check(nb_traces=pre_check)
        phase[0] = 'run'
    try:
        out = sy.run()
    except Exception as e_:
        out = None
        if acc:
            problems.append(f'run() raised {type(e_).__name__}: {e_}')
    if sy.processed_counter != n or sy.synchronized_counter != len(acc):
        problems.append(f'counters ({sy.processed_counter}, {sy.synchronized_counter}) expected ({n}, {len(acc)})')
    if out is not None:
        if len(out) != len(acc):
            problems.append(f'output holds {len(out)} traces, expected {len(acc)}')
        else:
            for j, i in enumerate(acc):
                if list(out[j].samples[:]) != [i * 10, i * 10 + 1] or list(out[j].plaintext) != [100 + 2 * i, 101 + 2 * i]:
                    problems.append(f'output trace {j}: samples {list(out[j].samples[:])} metadata {list(out[j].plaintext)}; expected those of input trace {i}')
    try:
        sy.run()
        problems.append('second run() was not refused')
    except ErrCls:
        pass
    except Exception as e_:
        problems.append(f'second run() raised {type(e_).__name__} instead of SynchronizerError')
    if sy.processed_counter != n:
        problems.append(f'processed counter {sy.processed_counter} after the refused second run')
    return problems


PATTERNS = ['AAA', 'RNR', 'NNN', 'ANA', 'RAN', 'NAARNA', 'A' + 'R' * 9 + 'A']


def job_ets(job, res):
    Sy = _m['sync']
    tmp = tempfile.mkdtemp(prefix='verif_c20_')
    try:
        for pat in PATTERNS:
            for as_path in (False, True):
                res['obligations'] += 1
                res['nontrivial'] += 1
                probs = run_real(Sy.Synchronizer, Sy.SynchronizerError, list(pat), as_path, tmp)
                if not probs:
                    res['discharged'] += 1
                else:
                    res['failures'].append(dict(kind='ets', pattern=pat, as_path=as_path, what=f'real ETS writer, pattern {pat}: {probs}', key=dict(kind='ets', pattern=pat)))
        res['samples'].append(dict(obligation='real ETSWriter (str / Path): patterns ' + ', '.join(PATTERNS), verdict='held' if not res['failures'] else 'violated'))
    finally:
        shutil.rmtree(tmp, ignore_errors=True)


def run_job(job):
    res = new_result(job['name'])
    {'patterns': job_patterns, 'step': job_step, 'ets': job_ets}[job['kind']](job, res)
    return res


def replay(w):
    import scared
    tmp = tempfile.mkdtemp(prefix='verif_c20_')
    try:
        pat = w['pattern'] if w['kind'] != 'step' else w['pattern']
        probs = []
        for as_path in (False, True):
            probs += run_real(scared.Synchronizer, scared.SynchronizerError, list(pat), as_path, tmp, pre_check=w.get('pre_check', 0))
        return dict(reproduced=bool(probs), detail=f'{"check() then run(), " if w.get("pre_check") else ""}pattern {pat}: {probs[:3]}')
    finally:
        shutil.rmtree(tmp, ignore_errors=True)
