"""C11 - results are independent of run-time kernel selection and thread count (DESIGN.md section 5, C11)."""
import itertools
import numpy as rnp
import z3

from vp import loader, symnp as S, elem as E, fakenumba
from vp.elem import CTX
from vp.run import new_result
from harness.common import explore, is_identity
from harness import statlib as L
from harness.C01 import equal_elem

ID = 'C11'
LEVEL = 'model_checking'
META = dict(
    functions=['scared.distinguishers.partitioned:PartitionedDistinguisherMixin._accumulate/_accumulate_core_1/_accumulate_core_2', 'scared.distinguishers.template:_TemplateBuildDistinguisherMixin._accumulate/_accumulate_core_1/_accumulate_core_2',
               'scared.distinguishers.mia:MIADistinguisherMixin._accumulate_core', 'scared.ttest:TTestThreadAccumulator._update_core'],
    bounds=dict(quick='kernel 1 vs kernel 2 from an arbitrary symbolic accumulator state on a symbolic batch of 3 traces x 2 samples (partitioned: 2 words, classes incl. the ignored marker; template: 1 word), '
                      'trace dtype in {uint8, int16, float32, float64} x precision {float32, float64}; every kernel-choice sequence reachable over 3 batches (symbolic clock); '
                      'iteration footprints of every prange loop (partitioned 1, template 1 and 2, MIA, t-test)',
                thorough='5 traces, 5 batches'),
    assumptions=['exact reals with rounding marks: an operation or cast carried out in a float type narrower than the requested precision is not assumed exact',
                 'thread-count independence is decided as independence of the prange iterations: no element written in one iteration is read or written in another (then any distribution over threads gives the same state)'],
    outside=['BLAS threading inside matrix products', 'real preemption inside compiled kernels'],
    stubs=['time.process_time: symbolic non-decreasing clock', 'numba kernels interpreted; prange = range with per-iteration footprint log'],
)
GRID = [('uint8', 'float32'), ('uint8', 'float64'), ('int16', 'float64'), ('float32', 'float32'), ('float32', 'float64'), ('float64', 'float64')]
_tt = {}


def prepare(tier, seed):
    L.load_distinguishers()
    _tt['ttest'], = loader.load(['scared.ttest'])


def jobs(tier, seed):
    js = []
    for fam in ('partitioned', 'template'):
        for (td, p) in GRID:
            js.append(dict(name=f'{fam}-k1-vs-k2-{td}-{p}', kind='kernels', fam=fam, td=td, p=p, n=3 if tier == 'quick' else 5))
        js.append(dict(name=f'{fam}-sequences', kind='sequences', fam=fam, batches=3 if tier == 'quick' else 5))
    js.append(dict(name='prange-footprints', kind='footprint'))
    return js


def sym_traces(td, shape):
    return S.sym_real('x', shape, td)


def job_kernels(job, res):
    fam, td, p, n = job['fam'], job['td'], job['p'], job['n']
    P, T = L.MODS['partitioned'], L.MODS['template']
    pt = rnp.dtype(p).type

    def body(ex, pr):
        x = sym_traces(td, (n, 2))
        if fam == 'partitioned':
            K = 3
            idx = S.const(rnp.array([[0, 2], [-1, 1], [1, 1], [2, -1], [1, 0]][:n], dtype='int32'))
            mk = lambda tag: (S.sym_real('s' + tag, (2, 2, K), p), S.sym_real('q' + tag, (2, 2, K), p), S.sym_real('c' + tag, (2, K), p))  # noqa: E731
            k1, k2 = P.PartitionedDistinguisherMixin._accumulate_core_1, P.PartitionedDistinguisherMixin._accumulate_core_2
        else:
            K = 2
            idx = S.const(rnp.array([[1], [-1], [1], [0], [0]][:n], dtype='int32'))
            mk = lambda tag: (S.sym_real('e' + tag, (K, 2), p), S.sym_real('f' + tag, (K, 2, 2), p), S.sym_real('c' + tag, (K,), p))  # noqa: E731
            k1, k2 = T._TemplateBuildDistinguisherMixin._accumulate_core_1, T._TemplateBuildDistinguisherMixin._accumulate_core_2
        names = ['sum', 'sum_square', 'counters'] if fam == 'partitioned' else ['_exi', '_exxi', '_counters']
        st0 = mk('')
        runs = []
        for threads in (1, 3, 16):            # numba.get_num_threads() as seen by the kernels
            fakenumba.set_num_threads(threads)
            st1 = tuple(a.copy() for a in st0)
            st2 = tuple(a.copy() for a in st0)
            k1(x, idx, *st1, pt)
            k2(x, idx, *st2, pt)
            runs.append((threads, st1, st2))
        fakenumba.set_num_threads(16)
        pairs = [(f'kernel 1 vs kernel 2 ({t} threads)', a, b) for t, a, b in runs] + [(f'kernel 1 with {runs[i][0]} vs {runs[0][0]} threads', runs[i][1], runs[0][1]) for i in (1, 2)]
        for label, sta, stb in pairs:
          for nm, a, b in zip(names, sta, stb):
            marks = sorted(set(sum((L.round_marks(E.R(t)) for t in list(a.c.reshape(-1)) + list(b.c.reshape(-1)) if E.is_sym(t)), [])))
            bad = [i for i, (u, v) in enumerate(zip(a.c.reshape(-1), b.c.reshape(-1))) if not equal_elem(u, v)]
            desc = f'{fam}: {label}: same {nm} from any accumulator state (traces {td}, precision {p}, {n} traces incl. ignored values)'
            pr.prove(z3.BoolVal(not bad), desc + (f' [differing entries {bad[:4]}; narrower-than-precision arithmetic: {marks}]' if bad else ''),
                     lambda m, nm=nm: dict(kind='kernels', fam=fam, td=td, p=p, n=n, attr=nm, x=L.model_values(m, x), key=dict(kind='kernels', fam=fam, attr=nm)))
    explore(res, body, max_paths=8, timeout_ms=20000, precision=rnp.dtype(p), exact=True)


def job_sequences(job, res):
    fam, nb = job['fam'], job['batches']
    seqs = set()
    first = {}

    def body(ex, pr):
        L.CLOCK.reset()
        fakenumba.KERNEL_CALLS.clear()
        x = S.sym_real('x', (nb, 2), 'float64')
        if fam == 'partitioned':
            d = L.MODS['partitioned'].SNRDistinguisher(partitions=[0, 1, 2], precision='float64')
            y = S.const(rnp.array([[0, 1], [7, 2], [1, 1], [2, 0], [0, 2]][:nb], dtype='uint8'))
            attrs = ['sum', 'sum_square', 'counters']
        else:
            import harness.C16 as C16
            d = C16.make('TemplateBuild')
            y = S.const(rnp.array([[0], [1], [7], [1], [0]][:nb], dtype='uint8'))
            attrs = ['_exi', '_exxi', '_counters']
        for i in range(nb):
            d.update(x[i:i + 1], y[i:i + 1])
        seq = tuple(1 if c.endswith('core_1') else 2 for c in fakenumba.KERNEL_CALLS if 'accumulate_core' in c)
        seqs.add(seq)
        snap = {a: list(getattr(d, a).c.reshape(-1)) for a in attrs}
        if not first:
            first.update(seq=seq, snap=snap)
            res['samples'].append(dict(obligation=f'{fam}: reference kernel sequence {seq}', verdict='reference'))
            return
        bad = [a for a in attrs if not all(equal_elem(u, v) for u, v in zip(snap[a], first['snap'][a]))]
        pr.prove(z3.BoolVal(not bad), f'{fam}: kernel choice sequence {seq} over {nb} batches leaves the same accumulators as sequence {first["seq"]} (differing: {bad})',
                 lambda m: dict(kind='sequences', fam=fam, seq=list(seq), ref=list(first['seq']), x=L.model_values(m, x), key=dict(kind='sequences', fam=fam)))
    explore(res, body, max_paths=64, timeout_ms=20000, exact=True)
    res['obligations'] += 1
    res['nontrivial'] += 1
    want = 2 ** (nb - 2)
    if len(seqs) >= want:
        res['discharged'] += 1
    else:
        res['unknown'].append(f'{fam}: only {len(seqs)} kernel sequences explored, expected {want}')
    res['notes'].append(f'{fam}: kernel sequences explored through the symbolic clock: {sorted(seqs)}')


def _independent(loops):
    """-> list of (loop number, i, j) whose iterations touch a common element with at least one write."""
    bad = []
    for ln, loop in enumerate(loops):
        w = [frozenset().union(*[s for k, s, *_ in fp if k == 'w']) if any(k == 'w' for k, s, *_ in fp) else frozenset() for _, fp in loop]
        r = [frozenset().union(*[s for k, s, *_ in fp if k == 'r']) if any(k == 'r' for k, s, *_ in fp) else frozenset() for _, fp in loop]
        for i in range(len(loop)):
            for j in range(len(loop)):
                if i != j and w[i] & (w[j] | r[j]):
                    bad.append((ln, loop[i][0], loop[j][0]))
    return bad


def job_footprint(job, res):
    P, T, M = L.MODS['partitioned'], L.MODS['template'], L.MODS['mia']
    pt = rnp.float64

    def body(ex, pr):
        x = S.sym_real('x', (3, 3), 'float64')
        cases = []
        idx2 = S.const(rnp.array([[0, 2], [-1, 1], [1, 1]], dtype='int32'))
        cases.append(('partitioned._accumulate_core_1', lambda: P.PartitionedDistinguisherMixin._accumulate_core_1(x, idx2, S.zeros((3, 2, 3)), S.zeros((3, 2, 3)), S.zeros((2, 3)), pt)))
        idx1 = S.const(rnp.array([[0], [1], [1]], dtype='int32'))
        cases.append(('template._accumulate_core_1', lambda: T._TemplateBuildDistinguisherMixin._accumulate_core_1(x, idx1, S.zeros((2, 3)), S.zeros((2, 3, 3)), S.zeros((2,)), pt)))
        cases.append(('template._accumulate_core_2', lambda: T._TemplateBuildDistinguisherMixin._accumulate_core_2(x, idx1, S.zeros((2, 3)), S.zeros((2, 3, 3)), S.zeros((2,)), pt)))
        xc = S.const(rnp.array([[1, 5, 3], [3, 0, 2], [6, 7, 1]], dtype='uint8'))
        cases.append(('mia._accumulate_core', lambda: M.MIADistinguisherMixin._accumulate_core(xc, idx2, S.const(rnp.array([0., 2., 4., 6.])), S.zeros((3, 3, 3, 2), dtype='uint32'))))
        cases.append(('ttest._update_core', lambda: _tt['ttest'].TTestThreadAccumulator._update_core(x, S.zeros((3,)), S.zeros((3,)), rnp.dtype('float64'))))
        for name, call in cases:
            CTX.prange_log = []
            try:
                call()
            finally:
                loops, CTX.prange_log = CTX.prange_log, None
            bad = _independent(loops)
            nit = sum(len(l_) for l_ in loops)
            pr.prove(z3.BoolVal(bool(loops) and not bad), f'{name}: the {nit} iterations of its prange loop(s) touch pairwise disjoint accumulator elements (conflicts: {bad[:3]})',
                     lambda m, name=name: dict(kind='footprint', kernel=name, key=dict(kind='footprint', kernel=name)))
    explore(res, body, max_paths=8, timeout_ms=20000, exact=True)


def run_job(job):
    res = new_result(job['name'])
    {'kernels': job_kernels, 'sequences': job_sequences, 'footprint': job_footprint}[job['kind']](job, res)
    return res


def replay(w):
    import random
    import numpy as np
    import scared
    from scared import distinguishers as D
    rnd = random.Random(6)
    if w['kind'] == 'footprint':
        return dict(reproduced=False, detail='iteration conflicts are reported from the symbolic run only (a data race has no deterministic replay)')
    if w['kind'] == 'kernels':
        fam, td, p, n = w['fam'], w['td'], w['p'], w['n']
        x0 = L.to_numpy(w['x'])
        tries = [x0]
        for _ in range(8):
            if np.dtype(td).kind == 'f':
                tries.append(np.array([rnd.uniform(3000, 9000) for _ in range(x0.size)], dtype=td).reshape(x0.shape))
            else:
                info = np.iinfo(td)
                tries.append(np.array([rnd.randrange(info.min, info.max + 1) for _ in range(x0.size)], dtype=td).reshape(x0.shape))
        pt = np.dtype(p).type
        for X in tries:
            if fam == 'partitioned':
                idx = np.array([[0, 2], [-1, 1], [1, 1], [2, -1], [1, 0]][:n], dtype='int32')
                mk = lambda: (np.zeros((2, 2, 3), dtype=p), np.zeros((2, 2, 3), dtype=p), np.zeros((2, 3), dtype=p))  # noqa: E731
                k1, k2 = D.partitioned.PartitionedDistinguisherMixin._accumulate_core_1, D.partitioned.PartitionedDistinguisherMixin._accumulate_core_2
                names = ['sum', 'sum_square', 'counters']
            else:
                idx = np.array([[1], [-1], [1], [0], [0]][:n], dtype='int32')
                mk = lambda: (np.zeros((2, 2), dtype=p), np.zeros((2, 2, 2), dtype=p), np.zeros((2,), dtype=p))  # noqa: E731
                k1, k2 = D.template._TemplateBuildDistinguisherMixin._accumulate_core_1, D.template._TemplateBuildDistinguisherMixin._accumulate_core_2
                names = ['_exi', '_exxi', '_counters']
            a, b = mk(), mk()
            import inspect
            last1 = pt if 'self_precision(' in inspect.getsource(k1.py_func) else np.dtype(p)
            last2 = pt if fam == 'template' or 'self_precision(' in inspect.getsource(k1.py_func) else np.dtype(p)
            k1(X, idx, *a, last1)
            k2(X, idx, *b, last2)
            for nm, u, v in zip(names, a, b):
                exact = np.dtype(td).kind in 'iu' or np.dtype(td).itemsize >= np.dtype(p).itemsize
                tol = 0 if exact and np.dtype(td).kind in 'iu' and np.dtype(p) == np.float64 else (1e-12 if p == 'float64' else 1e-5)
                if not np.allclose(u, v, rtol=tol, atol=0):
                    return dict(reproduced=True, detail=f'{fam} kernels on traces {X.tolist()} ({td}), precision {p}: {nm} from kernel 1 = {u.tolist()}, from kernel 2 = {v.tolist()}')
        return dict(reproduced=False, detail='the two kernels agree on the model and seeded inputs')
    if w['kind'] == 'sequences':
        return dict(reproduced=False, detail='kernel sequences are driven through the clock stub: replay through the kernels job')
    return dict(reproduced=False, detail='n/a')
