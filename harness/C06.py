"""C06 - DES / TDES encrypt, decrypt and every stop point against FIPS 46-3 (see DESIGN.md section 5, C06)."""
import numpy as rnp
import z3

from vp import loader, symnp as S, elem as E, symx
from vp.elem import CTX
from vp.run import new_result
from ref import fips46 as D
from harness.common import Prover, any_differs, model_bytes, frame_unchanged, explore, seeded_refute

ID = 'C06'
LEVEL = 'model_checking'
META = dict(
    functions=['scared.des.base:' + f for f in (
        'encrypt', 'decrypt', '_ParametricCipher.parametric_cipher', '_ParametricCipher._parametric_cipher_step', '_ParametricCipher._prepare_keys',
        '_ParametricCipher._prepare_des_iterations', '_ParametricCipher._prepare_rounds', 'key_schedule', 'initial_permutation', 'final_permutation',
        'expansive_permutation', 'permutation_p', 'inv_permutation_p', 'sboxes', 'add_round_key', 'SBOXES', 'ROUND_KEY_BITS_INDEXES')] + ['scared._utils:_is_bytes_array'],
    bounds=dict(
        quick='all 8-byte blocks x all keys of every kind (8/16/24 master bytes, 128/256/384 expanded bytes < 64); every at_des x at_round in {0,1,14,15} (TDES kinds: {0,15}) x after_step 0..9 '
              'x {encrypt, decrypt}; shapes (8,)x(K,) and (2,8)x(2,K)',
        thorough='as quick with every at_round 0..15 and the four broadcasting shapes'),
    assumptions=['expanded-key inputs hold 6-bit words (every byte < 64), as key_schedule produces them',
                 'in the data-flow layer the reference reads S-boxes through the same table terms as scared; the S-box lemma ties each table to S1..S8 of FIPS 46-3 on all 64 inputs'],
    outside=['batch sizes above 2', 'after PERMUTATION_P only the four P-output bytes are compared (scared keeps zero padding in bytes 4..7)'],
    stubs=[],
)
_des = None
KINDS = {8: (1, False), 16: (2, False), 24: (3, False), 128: (1, True), 256: (2, True), 384: (3, True)}


_real_des = None


def prepare(tier, seed):
    global _des, _real_des
    _des, = loader.load(['scared.des.base'])
    try:
        _real_des, = loader.load_real(['scared.des.base'])
    except Exception:       # noqa: B902
        _real_des = None


def validate_translation(res, mode, st, ky, out, kwargs, expanded):
    """Translator validation: the symbolic result evaluated on seeded inputs must equal what the real function returns under real numpy."""
    import random
    if _real_des is None:
        return
    from harness.common import EvalModel
    r = random.Random(st.size * 31 + ky.size)
    pairs, conc = [], {}
    for arr, nm, lim in ((st, 's', 256), (ky, 'k', 64 if expanded else 256)):
        vals = []
        for t in S.terms(arr):
            v = r.randrange(lim)
            vals.append(v)
            pairs.append((t, z3.BitVecVal(v, t.size())))
        conc[nm] = rnp.array(vals, dtype=arr.dtype).reshape(arr.shape)
    m = EvalModel(pairs)
    got = [m.eval(t).as_long() if E.is_sym(t) else int(t) for t in S.terms(out)]
    real = getattr(_real_des, mode)(conc['s'], conc['k'], **kwargs)
    if got == [int(v) for v in rnp.asarray(real).reshape(-1)]:
        res['validated'] += 1
    else:
        res['unknown'].append(f'translator validation failed for des.{mode}{kwargs}: symbolic model {got} vs real code {rnp.asarray(real).reshape(-1).tolist()}')


def jobs(tier, seed):
    js = [dict(name='L1-sboxes', kind='sbox'), dict(name='L1-primitives', kind='prims')]
    shapes = ['11', 'NN'] if tier == 'quick' else ['11', 'N1', '1N', 'NN']
    rounds = [0, 1, 14, 15] if tier == 'quick' else list(range(16))
    for mode in ('encrypt', 'decrypt'):
        for klen in KINDS:
            npass = 1 if KINDS[klen][0] == 1 else 3
            for sh in (shapes + (['N1', '1N'] if (tier == 'quick' and klen == 8) else [])):          # quick: the two mixed broadcasting shapes for 8-byte keys
                for d in range(npass):
                    if tier == 'thorough':
                        for chunk in range(0, 16, 4):
                            js.append(dict(name=f'L2-{mode}-k{klen:03d}-{sh}-des{d}-r{chunk:02d}', kind='flow', mode=mode, klen=klen, shape=sh, rounds=rounds[chunk:chunk + 4],
                                           n=2, passes=[d], full=(d == npass - 1 and chunk == 12)))
                    else:
                        rr = rounds if npass == 1 else [0, 15]
                        js.append(dict(name=f'L2-{mode}-k{klen:03d}-{sh}-des{d}', kind='flow', mode=mode, klen=klen, shape=sh, rounds=rr, n=2, passes=[d], full=(d == npass - 1)))
    return js


def _sbox_arr(w):
    return S._z3_table(_des.SBOXES.typed()[w], z3.BitVecSort(6))


def scared_sbox(w, x6):
    return z3.Extract(3, 0, z3.Select(_sbox_arr(w), x6))


def job_sbox(job, res):
    pr = Prover(res)
    t = _des.SBOXES.typed()
    pr.prove(z3.BoolVal(t.shape == (8, 64) and t.dtype == rnp.uint8), 'SBOXES is 8 x 64 uint8')
    x = z3.BitVec('x', 6)
    for w in range(8):
        pr.prove(z3.Select(_sbox_arr(w), x) == z3.ZeroExt(4, D.spec_sbox_fn(w, x)),
                 f'forall 6-bit x: SBOXES[{w}][x] == S{w + 1}(row = b1 b6, column = b2..b5) of FIPS 46-3',
                 lambda m, w=w: dict(kind='sbox', w=w, index=m.eval(x, model_completion=True).as_long(), key=dict(kind='sbox', w=w)))
    res['validated'] += 1


def _rows(arr, n):
    t = S.terms(arr)
    return [t[i:i + n] for i in range(0, len(t), n)]


def job_prims(job, res):
    pr = Prover(res)

    def wit(fn, arr):
        return lambda m: dict(kind='prim', fn=fn, state=model_bytes(m, arr), key=dict(kind='prim', fn=fn))
    for shape in ((8,), (2, 8)):
        st = S.sym_bv('s', shape)
        ky = S.sym_bv('k', shape)
        before = S.terms(st)
        exp = sum((D.bytes_of(D.perm(D.bits_of(r), D.IP)) for r in _rows(st, 8)), [])
        pr.prove(z3.Not(any_differs(S.terms(_des.initial_permutation(st)), exp)), f'des.initial_permutation(state{shape}) == IP', wit('initial_permutation', st))
        exp = sum((D.bytes_of(D.perm(D.bits_of(r), D.FP)) for r in _rows(st, 8)), [])
        pr.prove(z3.Not(any_differs(S.terms(_des.final_permutation(st)), exp)), f'des.final_permutation(state{shape}) == IP^-1', wit('final_permutation', st))
        exp = sum(([a ^ b for a, b in zip(r, k)] for r, k in zip(_rows(st, 8), _rows(ky, 8))), [])
        pr.prove(z3.Not(any_differs(S.terms(_des.add_round_key(st, ky)), exp)), f'des.add_round_key(state{shape}, keys{shape}) == xor', wit('add_round_key', st))
        # S-boxes: inputs are 6-bit words
        lim = [z3.ULT(t, 64) for t in S.terms(st)]
        CTX.side.clear()
        out = _des.sboxes(st)
        exp = sum(([z3.ZeroExt(4, D.spec_sbox_fn(w, z3.Extract(5, 0, r[w]))) for w in range(8)] for r in _rows(st, 8)), [])
        for j, (o, e_) in enumerate(zip(S.terms(out), exp)):
            pr.prove(z3.Implies(z3.And(*lim), o == e_), f'des.sboxes(state{shape})[{j}] == S{j % 8 + 1} on 6-bit words', wit('sboxes', st), sample=(j == 0))
        pr.prove(z3.Implies(z3.And(*lim), z3.And(*[c for k, c in CTX.side if k == 'index'])), 'des.sboxes: table indexes stay in range')
        # P on 8 nibbles
        nib = [z3.ULT(t, 16) for t in S.terms(st)]
        exp = sum((D.bytes_of(D.perm(sum(([z3.Extract(3 - i, 3 - i, b) for i in range(4)] for b in r), []), D.P)) for r in _rows(st, 8)), [])
        pr.prove(z3.Implies(z3.And(*nib), z3.Not(any_differs(S.terms(_des.permutation_p(st)), exp))), f'des.permutation_p(state{shape}) == P', wit('permutation_p', st))
        pr.prove(z3.BoolVal(frame_unchanged(before, st)), 'primitives do not modify their argument')
    for shape in ((4,), (2, 4)):
        v = S.sym_bv('v', shape)
        exp = sum((D.bytes_of(D.perm(D.bits_of(r), D.E), 6) for r in _rows(v, 4)), [])
        pr.prove(z3.Not(any_differs(S.terms(_des.expansive_permutation(v)), exp)), f'des.expansive_permutation(state{shape}) == E', wit('expansive_permutation', v))
        exp = sum((D.bytes_of(D.inv_perm32(D.bits_of(r)), 4) for r in _rows(v, 4)), [])
        pr.prove(z3.Not(any_differs(S.terms(_des.inv_permutation_p(v)), exp)), f'des.inv_permutation_p(state{shape}) == P^-1 (as 8 nibbles)', wit('inv_permutation_p', v))


def _ref_schedules(krow, klen):
    nk, expanded = KINDS[klen]
    if expanded:
        return [D.round_keys_from_expanded(krow[128 * i:128 * (i + 1)]) for i in range(nk)]
    return [D.key_schedule_bits(krow[8 * i:8 * (i + 1)]) for i in range(nk)]


def _ref_passes(ref, mode, srow, krow, klen):
    ks = _ref_schedules(krow, klen)
    npass = 1 if len(ks) == 1 else 3
    x = srow
    out = []
    for p in range(npass):
        tr = ref.des_pass(x, D.pass_keys(mode, None, ks, p))
        out.append(tr)
        x = tr['out']
    return out


def _shape_ok(res, out, nout, pos, sshape, kshape, desc, mode, klen, d, r, s):
    squeezed = (len(sshape) == 1 and len(kshape) == 1)
    g = S._w(out)
    ok = g.dtype == rnp.uint8 and g.ndim == (1 if squeezed else 2) and g.shape[-1] >= len(pos) and (squeezed or g.shape[0] == nout)
    if not ok:
        res['obligations'] += 1
        res['failures'].append(dict(kind='flow', what=desc + f' [shape/dtype {g.shape} {g.dtype}]', mode=mode, klen=klen, at_des=d, at_round=r, after_step=s,
                                    state=None, keyv=None, shapes=[list(sshape), list(kshape)], key=dict(kind='flow-shape', mode=mode, klen=klen)))
        return None
    grows = g.c.reshape(nout, -1)
    return [grows[i, j] for i in range(nout) for j in pos]


def _abstract_selects(t):
    """Replace every array read inside t by a fresh variable (a generalisation: proving the result proves t)."""
    cache = {}

    def go(e_):
        k_ = e_.get_id()
        if k_ in cache:
            return cache[k_]
        if z3.is_app(e_) and e_.decl().kind() == z3.Z3_OP_SELECT:
            r = z3.FreshConst(e_.sort(), 'sel')
        elif z3.is_app(e_) and e_.num_args() > 0:
            ch = [go(c) for c in e_.children()]
            r = e_.decl()(*ch) if any(not a.eq(b) for a, b in zip(ch, e_.children())) else e_
        else:
            r = e_
        cache[k_] = r
        return r
    return go(t)


def job_flow(job, res):
    mode, klen, sh, n = job['mode'], job['klen'], job['shape'], job['n']
    nk, expanded = KINDS[klen]
    npass = 1 if nk == 1 else 3
    ref = D.DesRef(scared_sbox)

    def body(ex, pr):
        sshape = (8,) if sh[0] == '1' else (n, 8)
        kshape = (klen,) if sh[1] == '1' else (n, klen)
        st = S.sym_bv('pt', sshape)
        ky = S.sym_bv('key', kshape)
        if expanded:
            for t in S.terms(ky):
                ex.assume(z3.ULT(t, 64))
                E.HINTS[t.get_id()] = 63
        res['twins'] += 1
        if ex.feasible():
            res['twins_ok'] += 1
        srows, krows = _rows(st, 8), _rows(ky, klen)
        nout = max(len(srows), len(krows))
        traces = [_ref_passes(ref, mode, srows[i] if len(srows) > 1 else srows[0], krows[i] if len(krows) > 1 else krows[0], klen) for i in range(nout)]
        fn = getattr(_des, mode)
        b_st, b_ky = S.terms(st), S.terms(ky)
        inputs = [c for c, _ in CTX.symbols.values()]

        history = []

        def wit(at_des, r, s, abstract=False):
            # with a cut in place the model speaks about the cut variables: the replay then searches seeded inputs at this stop point
            return lambda m: dict(kind='flow', mode=mode, klen=klen, at_des=at_des, at_round=r, after_step=s,
                                  state=None if abstract else model_bytes(m, st), keyv=None if abstract else model_bytes(m, ky),
                                  shapes=[list(sshape), list(kshape)], history=list(history), key=dict(kind='flow', mode=mode, klen=klen))
        pr.fallback = lambda goal: seeded_refute(goal, inputs, assumptions=list(ex.pc))
        # Key-schedule lemma first: every round-key byte scared derives from a master key equals the PC-1 / shift / PC-2 bits of the
        # standard; the (arithmetically built) byte terms are then replaced by that canonical form, after which scared's and the
        # standard's terms normalise to the same DAG and each stop-point query is discharged structurally.
        subk = []
        if not expanded:
            for i, krow in enumerate(krows):
                for j in range(nk):
                    rk = _des.key_schedule(S.from_terms(krow[8 * j:8 * j + 8], 'uint8'))
                    refk = D.key_schedule_bits(krow[8 * j:8 * j + 8])
                    for r in range(16):
                        for wd in range(8):
                            g = rk.c[r, wd]
                            e_ = z3.ZeroExt(2, z3.Concat(*refk[r][6 * wd:6 * wd + 6]))
                            if pr.prove(g == e_, f'des.key_schedule(key)[{r}][{wd}] == PC-2(shifted PC-1(key)) word', wit(None, r, -1), sample=(r == 0 and wd == 0 and i == 0 and j == 0)):
                                subk.append((g, e_))
        CTX.side.clear()
        proved_side = set()
        stops = [(d, r, s) for d in job['passes'] for r in job['rounds'] for s in range(10)] + ([(None, None, None)] if job['full'] else [])
        cut_s, cut_r = [], []
        for (d, r, s) in stops:
            history.append([d, r, s])
            if d is None:
                out = fn(st, ky)
                validate_translation(res, mode, st, ky, out, {}, expanded)
                exp = sum((tr[-1]['out'] for tr in traces), [])
                pos = list(range(8))
                desc = f'des.{mode}(state{sshape}, key{kshape}) == FIPS 46-3 {"TDES " if npass == 3 else ""}{mode}ion output'
            else:
                out = fn(st, ky, at_des=d, at_round=r, after_step=s)
                if s in (3, 8) and r == job['rounds'][0]:
                    validate_translation(res, mode, st, ky, out, dict(at_des=d, at_round=r, after_step=s), expanded)
                vals = [D.DesRef.stop_value(tr[d], r, s, d == npass - 1, d == 0) for tr in traces]
                pos = vals[0][1]
                exp = sum((v[0] for v in vals), [])
                desc = f'des.{mode}(state{sshape}, key{kshape}, at_des={d}, at_round={r}, after_step={s}) == FIPS 46-3 intermediate value'
            got = _shape_ok(res, out, nout, pos, sshape, kshape, desc, mode, klen, d, r, s)
            if got is None:
                break
            if s == 3:     # S-box outputs: the nibbles (that the upper nibble of every table entry is zero is part of the S-box lemma)
                got = [z3.Extract(3, 0, g) if E.is_sym(g) else g & 15 for g in got]
                exp = [z3.Extract(3, 0, e_) for e_ in exp]
            if s in (7, 8) and cut_s:
                # inverse-P views: the argument (the new halves, proved equal at after_step=6 just before) is replaced on both sides by fresh bytes;
                # what remains is inv_permutation_p itself on arbitrary input
                got = [z3.substitute(g, *cut_s) if E.is_sym(g) else g for g in got]
                exp = [z3.substitute(e_, *cut_r) for e_ in exp]
            ga = [z3.substitute(g, *subk) if subk and E.is_sym(g) else g for g in got]
            if not pr.prove(z3.Not(any_differs(ga, exp)), desc, wit(d, r, s)):
                break
            if s == 6:
                cut_s, cut_r = [], []
                for i, tr in enumerate(traces):
                    rd = tr[d]['rounds'][r]
                    bits = rd['L'] + rd['R']
                    for b in range(8):
                        v = z3.BitVec(f'cut_{d}_{r}_{i}_{b}', 8)
                        if E.is_sym(got[i * 8 + b]):
                            cut_s.append((got[i * 8 + b], v))
                        for j in range(8):
                            cut_r.append((bits[8 * b + j], z3.Extract(7 - j, 7 - j, v)))
            # table-index side conditions recorded during this call (each distinct one once; inner S-box reads abstracted by fresh variables)
            for k_, c in CTX.side:
                if k_ == 'index' and c.get_id() not in proved_side:
                    proved_side.add(c.get_id())
                    ca = _abstract_selects(z3.substitute(c, *subk) if subk else c)
                    pr.prove(ca, 'S-box table index < 64', lambda m: dict(kind='index', key=dict(kind='index')), sample=False)
            CTX.side.clear()
        pr.prove(z3.BoolVal(frame_unchanged(b_st, st) and frame_unchanged(b_ky, ky)), f'des.{mode} leaves the caller\'s arrays unmodified',
                 lambda m: dict(kind='frame', fn=mode, key=dict(kind='frame', fn=mode)))
    explore(res, body, max_paths=4, timeout_ms=15000)


def run_job(job):
    res = new_result(job['name'])
    CTX.reset()
    {'sbox': job_sbox, 'prims': job_prims, 'flow': job_flow}[job['kind']](job, res)
    return res


# ---------------------------------------------------------------------------------------------


def _V(bs):
    return [z3.BitVecVal(int(b), 8) for b in bs]


def concrete_expected(mode, klen, srow, krow, d, r, s):
    ref = D.DesRef()
    trs = _ref_passes(ref, mode, _V(srow), _V(krow), klen)
    if d is None:
        return D.concrete_eval(trs[-1]['out']), list(range(8))
    v, pos = D.DesRef.stop_value(trs[d], r, s, d == len(trs) - 1, d == 0)
    return D.concrete_eval(v), pos


def replay(w):
    import random
    import numpy as np
    from scared import des
    rnd = random.Random(2)
    if w['kind'] == 'sbox':
        t = np.array(des.SBOXES)
        bad = [(wd, i) for wd in range(8) for i in range(64) if t.shape != (8, 64) or int(t[wd][i]) != D.sbox_direct(wd)[i]]
        return dict(reproduced=bool(bad), detail=f'SBOXES entries differing from FIPS 46-3: {bad[:6]}')
    if w['kind'] in ('frame', 'index'):
        return dict(reproduced=False, detail='only reported from the symbolic run')
    if w['kind'] == 'prim':
        fn = w['fn']
        shp = np.array(w['state']).shape
        tries = [w['state']] + [np.array([rnd.randrange(64 if fn == 'sboxes' else (16 if fn == 'permutation_p' else 256)) for _ in range(int(np.prod(shp)))]).reshape(shp).tolist() for _ in range(32)]
        for stv in tries:
            a = np.array(stv, dtype=np.uint8)
            rows = a.reshape(-1, a.shape[-1]).tolist()
            if fn == 'add_round_key':
                continue
            got = np.array(getattr(des, fn)(a)).reshape(len(rows), -1).tolist()
            for row, g in zip(rows, got):
                bits = D.bits_of(_V(row))
                if fn == 'initial_permutation':
                    e = D.bytes_of(D.perm(bits, D.IP))
                elif fn == 'final_permutation':
                    e = D.bytes_of(D.perm(bits, D.FP))
                elif fn == 'expansive_permutation':
                    e = D.bytes_of(D.perm(bits, D.E), 6)
                elif fn == 'inv_permutation_p':
                    e = D.bytes_of(D.inv_perm32(bits), 4)
                elif fn == 'sboxes':
                    if any(v >= 64 for v in row):
                        continue
                    e = [z3.ZeroExt(4, D.spec_sbox_fn(wd, z3.BitVecVal(row[wd], 6))) for wd in range(8)]
                elif fn == 'permutation_p':
                    if any(v >= 16 for v in row):
                        continue
                    e = D.bytes_of(D.perm(sum(([z3.Extract(3 - i, 3 - i, b) for i in range(4)] for b in _V(row)), []), D.P))
                e = D.concrete_eval(e)
                if g[:len(e)] != e:
                    return dict(reproduced=True, detail=f'des.{fn}({row}) = {g} but FIPS 46-3 gives {e}')
        return dict(reproduced=False, detail='primitive agrees with FIPS 46-3 on the model and seeded inputs')
    mode, klen, d, r, s = w['mode'], w['klen'], w['at_des'], w['at_round'], w['after_step']
    expanded = KINDS[klen][1]
    tries = []
    if w.get('state') is not None:
        tries.append((w['state'], w['keyv']))
        sshape, kshape = np.array(w['state']).shape, np.array(w['keyv']).shape
    else:
        sshape, kshape = (tuple(w['shapes'][0]), tuple(w['shapes'][1])) if w.get('shapes') else ((8,), (klen,))
    for _ in range(16):
        tries.append((np.array([rnd.randrange(256) for _ in range(int(np.prod(sshape)))]).reshape(sshape).tolist(),
                      np.array([rnd.randrange(64 if expanded else 256) for _ in range(int(np.prod(kshape)))]).reshape(kshape).tolist()))
    fn = getattr(des, mode)
    for n, (stv, kv) in enumerate(tries):
        a, k = np.array(stv, dtype=np.uint8), np.array(kv, dtype=np.uint8)
        try:
            for (hd, hr, hs) in (w.get('history') or [])[:-1]:      # earlier calls of the same process, same arguments (hidden state between calls)
                fn(a, k) if hd is None else fn(a, k, at_des=hd, at_round=hr, after_step=hs)
            got = fn(a, k) if d is None else fn(a, k, at_des=d, at_round=r, after_step=s)
        except Exception as ex:
            return dict(reproduced=True, detail=f'des.{mode} raised {type(ex).__name__}: {ex} on a valid call')
        srows, krows = a.reshape(-1, 8).tolist(), k.reshape(-1, klen).tolist()
        nout = max(len(srows), len(krows))
        g = np.array(got).reshape(nout, -1).tolist() if np.array(got).size % nout == 0 else None
        for i in range(nout):
            e, pos = concrete_expected(mode, klen, srows[i] if len(srows) > 1 else srows[0], krows[i] if len(krows) > 1 else krows[0], d, r, s)
            if g is None or [g[i][j] for j in pos if j < len(g[i])] != e:
                return dict(reproduced=True, route='solver model' if n == 0 and w.get('state') is not None else 'seeded input after the solver reported differing terms',
                            detail=f'des.{mode}(state={srows}, key={krows}, at_des={d}, at_round={r}, after_step={s}) = {np.array(got).tolist()} but FIPS 46-3 gives {e} at positions {pos} (row {i})')
    return dict(reproduced=False, detail='real code agrees with FIPS 46-3 on the model and on seeded inputs')
