"""C19 - signal helpers equal windowed definitions; peak search keeps isolated maxima (DESIGN.md section 5, C19)."""
import itertools
import numpy as rnp
import z3

from vp import loader, symnp as S, elem as E
from vp.elem import CTX
from vp.run import new_result
from harness.common import explore, is_identity, guarded
from harness import statlib as L
from harness.C01 import equal_elem

ID = 'C19'
LEVEL = 'model_checking'
META = dict(
    functions=['scared.signal_processing.moving_operators:moving_sum/moving_mean/moving_var/moving_std/moving_skew/moving_kurtosis', 'scared.signal_processing.base:pad/cast_array',
               'scared.signal_processing.pattern_detection:correlation/distance/bcdc', 'scared.signal_processing.peaks_detection:find_peaks/_find_peaks_numba_core/find_width/extract_around_indexes'],
    bounds=dict(quick='moving operators: symbolic arrays of shape (5,), (2,4), (2,3,4), every axis (both spellings), every window 1..len; pattern scores: trace of 5, patterns of 2 and 3 symbolic samples; '
                      'pad / extract_around_indexes on symbolic arrays; find_width: 5 symbolic samples, symbolic threshold, both directions, 5 width-bound settings (masks by forking); find_peaks on one 33010-sample trace (zeros, three symbolic isolated peaks); pattern scores also with the pattern taken as a view of the trace; '
                      'find_peaks: whole function on 4 symbolic samples (float and uint8) with symbolic height and every distance 0..4; peak elimination core on 3 and 4 candidates at several spacings with symbolic values',
                thorough='find_peaks on 5 samples, find_width on 6'),
    assumptions=['exact reals; scipy.signal.correlate(a, b, "valid") is the defining sliding dot product', 'std / skew / kurtosis / correlation are compared through squares (sqrt symbols) and signs'],
    outside=['arrays longer than the stated sizes', 'NaN / infinite samples'],
    stubs=['scipy.signal.correlate: defining sum', 'numba kernel interpreted'],
)
_m = {}


class _Sig:
    @staticmethod
    def correlate(a, b, mode='valid'):
        a, b = S._w(a), S._w(b)
        n, k = len(a), len(b)
        out = [sum_terms([mul(a.c[i + j], b.c[j]) for j in range(k)]) for i in range(n - k + 1)]
        return S.from_terms(out, 'float64')


def mul(x, y):
    return E.r_mul(E.to_real(x, None) if E.is_sym(x) else x, E.to_real(y, None) if E.is_sym(y) else y)


def sum_terms(ts):
    r = 0
    for t in ts:
        r = E.r_add(r, t)
    return r


def prepare(tier, seed):
    mods = loader.load(['scared.signal_processing.moving_operators', 'scared.signal_processing.pattern_detection', 'scared.signal_processing.peaks_detection', 'scared.signal_processing.base'])
    _m.update(mov=mods[0], pat=mods[1], peaks=mods[2], base=mods[3])
    _m['pat']._signal = _Sig


def jobs(tier, seed):
    js = [dict(name=f'moving-{"x".join(map(str, sh))}', kind='moving', shape=list(sh)) for sh in ((5,), (2, 4), (2, 3, 4))]
    js += [dict(name='pattern', kind='pattern'), dict(name='pad-extract', kind='padx')]
    js += [dict(name=f'find-width-{d}', kind='width', direction=d, n=5 if tier == 'quick' else 6) for d in ('POSITIVE', 'NEGATIVE')]
    js += [dict(name=f'find-peaks-{dt}-d{d}', kind='peaks', dt=dt, d=d, n=4 if tier == 'quick' else 5) for dt in ('float64', 'uint8') for d in range(0, 5)]
    js += [dict(name='peaks-core', kind='core'), dict(name='find-peaks-long-trace', kind='peaks-long')]
    return js


def windows(arr, axis, w):
    """List over output positions of the list of element terms in each window (arr: object carrier)."""
    a = rnp.moveaxis(arr, axis, 0)
    out = rnp.empty((a.shape[0] - w + 1,) + a.shape[1:], dtype=object)
    for idx in rnp.ndindex(out.shape):
        out[idx] = [E.R(a[(idx[0] + j,) + idx[1:]]) for j in range(w)]
    return rnp.moveaxis(out, 0, axis)


def job_moving(job, res):
    shape = tuple(job['shape'])
    mov = _m['mov']

    def body(ex, pr):
        x = S.sym_real('x', shape, 'float64')
        for axis in list(range(len(shape))) + [-1, -len(shape)]:
            ax = axis % len(shape)
            for w in range(1, shape[ax] + 1):
                win = windows(x.c, ax, w)

                def chk(name, call, f, squared=False):
                    wit_ = lambda m, name=name: dict(kind='moving', fn=name, shape=list(shape), w=w, axis=axis, x=L.model_values(m, x), key=dict(kind='moving', fn=name))  # noqa: E731
                    done, out = guarded(pr, f'{name}(data{shape}, window_size={w}, axis={axis})', wit_, call)
                    if not done:
                        return
                    got = S._w(out)
                    ok = tuple(got.shape) == tuple(win.shape)
                    if ok:
                        for idx in rnp.ndindex(win.shape):
                            ok = ok and f(got.c[idx], win[idx])
                            if not ok:
                                break
                    pr.prove(z3.BoolVal(bool(ok)), f'{name}(data{shape}, window_size={w}, axis={axis}) == the naive statistic of every window',
                             lambda m, name=name: dict(kind='moving', fn=name, shape=list(shape), w=w, axis=axis, x=L.model_values(m, x), key=dict(kind='moving', fn=name)), sample=(w == 2 and axis == 0))

                def mom(v, k):
                    return z3.Sum([t ** k if k > 1 else t for t in v]) / len(v)
                chk('moving_sum', lambda: mov.moving_sum(x, w, axis), lambda g, v: equal_elem(g, z3.Sum(v)))
                chk('moving_mean', lambda: mov.moving_mean(x, w, axis), lambda g, v: equal_elem(g, mom(v, 1)))
                chk('moving_var', lambda: mov.moving_var(x, w, axis), lambda g, v: equal_elem(g, mom(v, 2) - mom(v, 1) * mom(v, 1)))
                if w >= 2 and len(shape) <= 2:
                    mark = len(CTX.side)

                    def std_ok(g, v):
                        var = mom(v, 2) - mom(v, 1) * mom(v, 1)
                        rad = next((r for sy, r in CTX.sqrts if E.is_sym(g) and g.eq(sy)), None)
                        return rad is not None and is_identity(rad == var)
                    chk('moving_std', lambda: mov.moving_std(x, w, axis), std_ok)

                    def ratio_ok(num_o, vpow):
                        def f(g, v):
                            if not E.is_sym(g):
                                return False
                            var = mom(v, 2) - mom(v, 1) * mom(v, 1)
                            num, den = L.ratform(E.R(g))
                            den2 = L.eliminate_sqrt_square(den)
                            no = num_o(v)
                            dfree = z3.substitute(den, *[(sy, z3.RealVal(1)) for sy, _ in CTX.sqrts]) if CTX.sqrts else den
                            if is_identity(no == 0):
                                return is_identity(num == 0)
                            c_ = L.proportional(num * dfree, no * (var if vpow == 4 else 1))
                            return den2 is not None and is_identity(num * num * var ** vpow == no * no * den2) and c_ is not None
                        return f
                    m1 = lambda v: mom(v, 1)  # noqa: E731
                    chk('moving_skew', lambda: mov.moving_skew(x, w, axis), ratio_ok(lambda v: mom(v, 3) - 3 * m1(v) * mom(v, 2) + 2 * m1(v) ** 3, 3))

                    def kurt_ok(g, v):
                        var = mom(v, 2) - m1(v) * m1(v)
                        num, den = L.ratform(E.R(g))
                        on, od = L.ratform((mom(v, 4) - 4 * m1(v) * mom(v, 3) + 6 * m1(v) ** 2 * mom(v, 2) - 3 * m1(v) ** 4) / (var * var) - 3)
                        return is_identity(num * od == on * den)
                    chk('moving_kurtosis', lambda: mov.moving_kurtosis(x, w, axis), kurt_ok)
                    del CTX.side[mark:]
        xb = S.sym_bv('b', (4,), 'uint8')
        out = mov.moving_sum(xb, 2)
        exp = [z3.ToReal(z3.BV2Int(xb.c[i])) + z3.ToReal(z3.BV2Int(xb.c[i + 1])) for i in range(3)]
        pr.prove(z3.BoolVal(tuple(out.shape) == (3,) and all(equal_elem(g, e_) for g, e_ in zip(out.c, exp))), 'moving_sum on uint8 data does not wrap (float64 accumulation)',
                 lambda m: dict(kind='moving', fn='moving_sum-uint8', shape=[4], w=2, axis=-1, x=None, key=dict(kind='moving', fn='moving_sum-uint8')))
    explore(res, body, max_paths=16, timeout_ms=20000, exact=True)


def job_pattern(job, res):
    pat = _m['pat']

    def body(ex, pr):
        for k, alias in ((2, False), (3, False), (2, True)):
            # alias: the pattern is a view of the trace itself (pattern = trace[1:3]), the usual way of picking a pattern
            def fresh(k=k, alias=alias):               # fresh arrays (same symbols) per call: nothing a call may have done to its arguments carries over
                t_ = S.sym_real('t', (5,), 'float64')
                return t_, (t_[1:1 + k] if alias else S.sym_real('p', (k,), 'float64'))
            t, p = fresh()
            T = [E.R(v) for v in S.terms(t)]
            P = [E.R(v) for v in S.terms(p)]
            nwin = 5 - k + 1
            mark = len(CTX.side)
            wit = lambda m, nm='', k=k, alias=alias, T=T, P=P: dict(kind='pattern', fn=nm, k=k, alias=alias, t=dict(shape=[5], dtype='float64', values=[[L.frac_of_model(m, v).numerator, L.frac_of_model(m, v).denominator] for v in T]), p=dict(shape=[k], dtype='float64', values=[[L.frac_of_model(m, v).numerator, L.frac_of_model(m, v).denominator] for v in P]), key=dict(kind='pattern', fn=nm))  # noqa: E731
            out = pat.distance(t, p)
            ok = tuple(out.shape) == (nwin,)
            for i in range(nwin if ok else 0):
                d2 = z3.Sum([(T[i + j] - P[j]) * (T[i + j] - P[j]) for j in range(k)])
                rad = next((r for sy, r in CTX.sqrts if E.is_sym(out.c[i]) and out.c[i].eq(sy)), None)
                if rad is None and not E.is_sym(out.c[i]):          # a window that is the pattern itself: concrete 0
                    rad = E.R(out.c[i]) * E.R(out.c[i])
                ok = ok and rad is not None and is_identity(rad == d2)
            pr.prove(z3.BoolVal(bool(ok)), f'distance(trace[5], pattern[{k}]{" = a view of the trace" if alias else ""})[i] == Euclidean distance between window i and the pattern', lambda m: wit(m, 'distance'))
            t, p = fresh()
            out = pat.correlation(t, p)
            ok = tuple(out.shape) == (nwin,)
            for i in range(nwin if ok else 0):
                wv = T[i:i + k]
                cov, vx, vy = L.cov_sum(wv, P), L.ssd(wv), L.ssd(P)
                num, den = L.ratform(E.R(out.c[i]))
                den2 = L.eliminate_sqrt_square(den)
                dfree = z3.substitute(den, *[(sy, z3.RealVal(1)) for sy, _ in CTX.sqrts])
                c_ = L.proportional(num * dfree, cov)
                ok = ok and den2 is not None and is_identity(num * num * vx * vy == cov * cov * den2) and c_ is not None and c_ > 0 and is_identity(num * dfree == L.rv(c_) * cov)
            pr.prove(z3.BoolVal(bool(ok)), f'correlation(trace[5], pattern[{k}]{" = a view of the trace" if alias else ""})[i] == Pearson correlation between window i and the pattern (squared form + sign)', lambda m: wit(m, 'correlation'))
            t, p = fresh()
            out = pat.bcdc(t, p)
            ok = tuple(out.shape) == (nwin,)
            for i in range(nwin if ok else 0):
                wv = T[i:i + k]
                dm = [a - b for a, b in zip(wv, P)]
                sm = [a + b for a, b in zip(wv, P)]
                vnum = z3.Sum([v * v for v in dm]) / k - (z3.Sum(dm) / k) ** 2
                vden = z3.Sum([v * v for v in sm]) / k - (z3.Sum(sm) / k) ** 2
                g = out.c[i]
                if not E.is_sym(g):            # a window that is the pattern itself: the concrete ratio 0
                    ok = ok and is_identity(E.R(g) * E.R(g) * z3.If(vden >= 0, vden, -vden) == z3.If(vnum >= 0, vnum, -vnum))
                    continue
                num, den = L.ratform(E.R(g))
                rn = next((r for sy, r in CTX.sqrts if num.eq(sy) or z3.simplify(num).eq(sy)), None)
                rd = next((r for sy, r in CTX.sqrts if den.eq(sy) or z3.simplify(den).eq(sy)), None)
                ok = ok and rn is not None and rd is not None and is_identity(rn == z3.If(vnum >= 0, vnum, -vnum)) and is_identity(rd == z3.If(vden >= 0, vden, -vden))
            pr.prove(z3.BoolVal(bool(ok)), f'bcdc(trace[5], pattern[{k}]{" = a view of the trace" if alias else ""})[i] == sqrt|var(window - pattern)| / sqrt|var(window + pattern)|', lambda m: wit(m, 'bcdc'))
            del CTX.side[mark:]
    explore(res, body, max_paths=16, timeout_ms=20000, exact=True)


def job_padx(job, res):
    base, peaks = _m['base'], _m['peaks']

    def body(ex, pr):
        a = S.sym_real('a', (2, 3), 'float64')
        out = base.pad(a, (4, 5), offsets=(1, 2), pad_with=7)
        ok = tuple(out.shape) == (4, 5)
        for idx in rnp.ndindex((4, 5) if ok else ()):
            inside = 1 <= idx[0] < 3 and 2 <= idx[1] < 5
            e_ = a.c[idx[0] - 1, idx[1] - 2] if inside else 7
            ok = ok and equal_elem(out.c[idx], e_)
        pr.prove(z3.BoolVal(bool(ok)), 'pad(array(2,3), (4,5), offsets=(1,2), pad_with=7) places the array at the offsets and the pad value elsewhere', lambda m: dict(kind='padx', fn='pad', key=dict(kind='padx', fn='pad')))
        out0 = base.pad(a, (2, 4))
        ok = tuple(out0.shape) == (2, 4) and all(equal_elem(out0.c[i, j], a.c[i, j] if j < 3 else 0) for i in range(2) for j in range(4))
        pr.prove(z3.BoolVal(bool(ok)), 'pad with default offsets and pad value', lambda m: dict(kind='padx', fn='pad-default', key=dict(kind='padx', fn='pad-default')))
        d = S.sym_real('d', (8,), 'float64')
        idxs = S.const(rnp.array([2, 4, 5]))
        for mode in peaks.ExtractMode:
            out = peaks.extract_around_indexes(d, idxs, 1, 2, mode)
            rows = [[d.c[i + o] for o in range(-1, 3)] for i in (2, 4, 5)]
            if mode is peaks.ExtractMode.STACK:
                exp, shp = [e_ for r in rows for e_ in r], (3, 4)
            elif mode is peaks.ExtractMode.CONCATENATE:
                exp, shp = [e_ for r in rows for e_ in r], (12,)
            else:
                exp, shp = [z3.Sum([E.R(rows[r][c]) for r in range(3)]) / 3 for c in range(4)], (4,)
            ok = tuple(out.shape) == shp and all(equal_elem(g, e_) for g, e_ in zip(S._w(out).c.reshape(-1), exp))
            pr.prove(z3.BoolVal(bool(ok)), f'extract_around_indexes(data, [2,4,5], before=1, after=2, {mode}) takes exactly samples index-1 .. index+2', lambda m, mode=mode: dict(kind='padx', fn=f'extract-{mode.name}', key=dict(kind='padx', fn=f'extract-{mode.name}')))
    explore(res, body, max_paths=8, timeout_ms=20000, exact=True)


def runs_oracle(beyond, min_width, max_width, delta):
    n = len(beyond)
    out = []
    i = 0
    while i < n:
        if beyond[i]:
            j = i
            while j + 1 < n and beyond[j + 1]:
                j += 1
            length = j - i + 1
            bracketed = i > 0 and j < n - 1
            if max_width is not None:
                okw = min_width <= length <= max_width
            elif delta is not None:
                okw = min_width - delta <= length <= min_width + delta
            else:
                okw = length >= min_width
            if bracketed and okw:
                out.append([i, j + 1])
            i = j + 1
        else:
            i += 1
    return out


def job_width(job, res):
    peaks = _m['peaks']
    n = job['n']
    direction = getattr(peaks.Direction, job['direction'])

    def body(ex, pr):
        import warnings
        warnings.simplefilter('ignore')
        x = S.sym_real('x', (n,), 'float64')
        thr = E.register(z3.Real('thr'))
        thr_s = S.from_terms([thr], 'float64')[0]
        X = [E.R(v) for v in S.terms(x)]
        settings = [(1, None, None), (2, None, None), (1, 2, None), (2, 3, None), (2, None, 1)]
        first = True
        # the strictly-beyond mask is decided by the harness, before and independently of the comparisons the code makes
        # (a sample equal to the threshold is on the not-beyond side; the code's own comparison then forks there if it differs)
        beyond0 = [bool(ex.branch((v > thr) if direction is peaks.Direction.POSITIVE else (v < thr))) for v in X]
        for (mw, xw, dl) in settings:
            # `threshold` must be a Python number for the argument check: the harness passes the symbolic scalar through a float subclass stand-in
            out = peaks.find_width.__wrapped__(x, direction, thr_s, mw, xw, dl) if hasattr(peaks.find_width, '__wrapped__') else _call_width(peaks, x, direction, thr_s, mw, xw, dl)
            got = S._w(out)
            gl = got.typed().tolist() if not got.sym else None
            # the mask decided on this path
            beyond = list(beyond0)
            ok = gl is not None and None not in beyond and [list(map(int, r_)) for r_ in gl] == runs_oracle(beyond, mw, xw, dl)
            pr.prove(z3.BoolVal(bool(ok)), f'find_width({job["direction"]}, min_width={mw}, max_width={xw}, delta={dl}) on the path with strictly-beyond mask {beyond}: result {gl} == maximal bracketed runs within the bounds, as [first, last + 1]',
                     lambda m, mw=mw, xw=xw, dl=dl: dict(kind='width', direction=job['direction'], n=n, mw=mw, xw=xw, dl=dl, x=L.model_values(m, x), thr=[L.frac_of_model(m, thr).numerator, L.frac_of_model(m, thr).denominator],
                                                        key=dict(kind='width', direction=job['direction'], mw=mw, xw=xw, dl=dl)), sample=first)
            first = False
    explore(res, body, max_paths=400, timeout_ms=20000, exact=True)


def _call_width(peaks, x, direction, thr, mw, xw, dl):
    """find_width with its argument check bypassed for the symbolic threshold only (the body is the real one)."""
    orig = peaks._check_find_width_args
    peaks._check_find_width_args = lambda data, direction, threshold, min_width, max_width, delta: orig(data, direction, 0.0, min_width, max_width, delta)
    try:
        return peaks.find_width(x, direction, thr, mw, xw, dl)
    finally:
        peaks._check_find_width_args = orig


def peaks_props(vals, h, d, result, ex):
    """Clauses of the property on a path where all comparisons are decided: returns list of violated clause names."""
    n = len(vals)

    def holds(c):
        r, _ = ex.check(z3.Not(c)) if not isinstance(c, bool) else ('unsat' if c else 'sat', None)
        return r == 'unsat'

    def ge(a, b):
        return holds(a >= b)
    cand = [i for i in range(n) if (i == 0 or ge(vals[i], vals[i - 1])) and (i == n - 1 or ge(vals[i], vals[i + 1])) and ge(vals[i], h)]
    bad = []
    if any(i not in cand for i in result):
        bad.append('returned index is not a local maximum above the height')
    if any(abs(a - b) < d for a in result for b in result if a != b):
        bad.append('two returned peaks closer than min_peak_distance')
    for c in cand:
        if c not in result and not any(o != c and abs(o - c) < d and ge(vals[o], vals[c]) for o in cand):
            bad.append(f'candidate {c} dropped although no candidate closer than min_peak_distance is at least as high')
    return bad, cand


def job_peaks(job, res):
    peaks = _m['peaks']
    n, d, dt = job['n'], job['d'], job['dt']

    def body(ex, pr):
        if dt == 'float64':
            x = S.sym_real('x', (n,), dt)
            vals = [E.R(v) for v in S.terms(x)]
            h = E.register(z3.Real('h'))
        else:
            x = S.sym_bv('x', (n,), dt)
            vals = [z3.BV2Int(v) for v in S.terms(x)]
            h = E.register(z3.Int('h'))
        hs = S.from_terms([h], 'float64' if dt == 'float64' else 'int64')[0]
        orig_abs = peaks._np.abs
        out = _call_peaks(peaks, x, d, hs)
        got = [int(v) for v in S._w(out).typed()] if not S._w(out).sym else None
        bad, cand = peaks_props(vals, h, d, got or [], ex) if got is not None else (['symbolic result'], [])
        pr.prove(z3.BoolVal(not bad), f'find_peaks({n} samples {dt}, min_peak_distance={d}, symbolic height): returned {got} from candidates {cand}: {bad if bad else "all clauses hold"}',
                 lambda m: dict(kind='peaks', dt=dt, n=n, d=d, x=(L.model_values(m, x) if dt == 'float64' else dict(shape=[n], dtype=dt, values=[[m.eval(v, model_completion=True).as_long(), 1] for v in vals])),
                                h=[L.frac_of_model(m, h).numerator, L.frac_of_model(m, h).denominator] if dt == 'float64' else [m.eval(h, model_completion=True).as_long(), 1], key=dict(kind='peaks', dt=dt, d=d)))
    explore(res, body, max_paths=4000, timeout_ms=20000, exact=True)


LONG_N, LONG_POS = 33010, (7, 32800, 33005)


def job_peaks_long(job, res):
    """A long trace (more samples than a 16-bit index can address): zeros except three symbolic peaks, concrete height threshold.
    Every isolated peak must be returned, wherever it sits."""
    peaks = _m['peaks']

    def body(ex, pr):
        hs = [E.register(z3.Real(f'p{i}')) for i in range(len(LONG_POS))]
        for t in hs:
            ex.assume(t > 1)
        c = rnp.zeros(LONG_N, dtype=object)
        for i in range(LONG_N):
            c[i] = 0.0
        for pos, t in zip(LONG_POS, hs):
            c[pos] = t
        x = S.ndarray_impl(c, rnp.dtype('float64'))
        wit = lambda m: dict(kind='peaks-long', heights=[float(L.frac_of_model(m, t)) for t in hs], key=dict(kind='peaks-long'))  # noqa: E731
        done, out = guarded(pr, f'find_peaks(trace of {LONG_N} samples)', wit, lambda: peaks.find_peaks(x, 5, 0.5))
        if not done:
            return
        got = [int(v) for v in S._w(out).typed()] if not S._w(out).sym else None
        pr.prove(z3.BoolVal(got == list(LONG_POS)), f'find_peaks on {LONG_N} samples (zeros, three isolated peaks of any height > 1 at {LONG_POS}, min_peak_distance 5, height 0.5) returns exactly those positions (got {got})', wit)
    explore(res, body, max_paths=64, timeout_ms=20000, exact=True)


def _call_peaks(peaks, x, d, h):
    """find_peaks with the numeric type check of min_peak_height bypassed for the symbolic height (everything else is the real body)."""
    import builtins

    class _Num(float):
        pass
    src_abs = peaks._np.abs
    peaks._np_abs_saved = src_abs
    mod = peaks
    real_isinstance = builtins.isinstance
    # the check `_np.abs(min_peak_height) != _np.inf` and the isinstance tests run on a plain float stand-in; the comparison `data >= min_peak_height` uses the symbolic scalar
    code = mod.find_peaks
    g = dict(code.__globals__)

    class H(float):
        def __new__(cls):
            return float.__new__(cls, 0.0)

        def __le__(self, other):
            return S._binop('ge', other, h)

        def __ge__(self, other):
            return S._binop('le', other, h)

        def __lt__(self, other):
            return S._binop('gt', other, h)

        def __gt__(self, other):
            return S._binop('lt', other, h)
    hh = H()
    # data >= hh  -> ndarray.__ge__(hh): hh is a float, so route through the reflected operator explicitly
    orig_binop = S._binop

    def patched(op, a, b, inplace=False):
        if b is hh:
            b = h
        if a is hh:
            a = h
        return orig_binop(op, a, b, inplace)
    S._binop = patched
    S.ndarray_impl.__ge__ = lambda s_, o: patched('ge', s_, o)
    try:
        return mod.find_peaks(x, d, hh)
    finally:
        S._binop = orig_binop
        S.ndarray_impl.__ge__ = lambda s_, o: orig_binop('ge', s_, o)


def job_core(job, res):
    peaks = _m['peaks']

    def body(ex, pr):
        for positions, d in (([0, 1, 2], 5), ([0, 2, 3], 6), ([1, 2, 4], 7), ([0, 1, 3, 4], 9), ([1, 3, 5], 3), ([0, 2, 3], 2), ([2, 4, 9], 3), ([0, 3, 4, 8], 5), ([1, 2, 3, 4], 2), ([0, 4, 5, 9], 5), ([3, 8], 5), ([0, 1, 2, 10], 2)):
            n = max(positions) + 2
            x = S.sym_real('x', (n,), 'float64')
            vals = [E.R(v) for v in S.terms(x)]
            maximas = S.const(rnp.array(positions, dtype='int32'))
            out = peaks._find_peaks_numba_core(x, maximas, d)
            got = [int(v) for v in S._w(out).typed()]

            def ge(a, b):
                r, _ = ex.check(z3.Not(vals[a] >= vals[b]))
                return r == 'unsat'
            bad = []
            if any(g not in positions for g in got):
                bad.append('returns a non-candidate')
            if any(abs(a - b) < d for a in got for b in got if a != b):
                bad.append('survivors closer than the distance')
            for c in positions:
                if c not in got and not any(o != c and abs(o - c) < d and ge(o, c) for o in positions):
                    bad.append(f'candidate {c} dropped without a close candidate at least as high')
            pr.prove(z3.BoolVal(not bad), f'peak elimination on candidates {positions}, distance {d}, symbolic values: survivors {got}: {bad if bad else "pairwise far enough; every dropped candidate has a close candidate at least as high"}',
                     lambda m, positions=positions, d=d: dict(kind='core', positions=positions, d=d, x=L.model_values(m, x), key=dict(kind='core', positions=positions)), sample=(positions == [1, 3, 5]))
    explore(res, body, max_paths=2000, timeout_ms=20000, exact=True)


def run_job(job):
    res = new_result(job['name'])
    {'moving': job_moving, 'pattern': job_pattern, 'padx': job_padx, 'width': job_width, 'peaks': job_peaks, 'core': job_core, 'peaks-long': job_peaks_long}[job['kind']](job, res)
    return res


def replay(w):
    import random
    import numpy as np
    from fractions import Fraction
    from scared import signal_processing as sp
    rnd = random.Random(13)
    if w['kind'] == 'moving':
        fn = w['fn']
        shape, win, axis = tuple(w['shape']), w['w'], w['axis']
        if fn == 'moving_sum-uint8':
            x = np.array([200, 250, 255, 3], dtype='uint8')
            out = sp.moving_sum(x, 2)
            exp = np.array([450., 505., 258.])
            return dict(reproduced=not np.allclose(out, exp), detail=f'moving_sum(uint8 {x.tolist()}, 2) = {np.array(out).tolist()}')
        tries = ([L.to_numpy(w['x'])] if w.get('x') else []) + [np.array([rnd.uniform(-4, 4) for _ in range(int(np.prod(shape)))]).reshape(shape) for _ in range(4)]
        for X in tries:
            try:
                out = np.array(getattr(sp, fn)(X, win, axis))
            except Exception as e_:
                return dict(reproduced=True, detail=f'{fn}(data{shape}, window_size={win}, axis={axis}) raised {type(e_).__name__}: {e_}')
            sw = np.lib.stride_tricks.sliding_window_view(X, win, axis=axis % X.ndim)
            m1 = sw.mean(-1)
            var = (sw ** 2).mean(-1) - m1 ** 2
            with np.errstate(all='ignore'):
                exp = {'moving_sum': sw.sum(-1), 'moving_mean': m1, 'moving_var': var, 'moving_std': np.sqrt(var),
                       'moving_skew': ((sw - m1[..., None]) ** 3).mean(-1) / var ** 1.5, 'moving_kurtosis': ((sw - m1[..., None]) ** 4).mean(-1) / var ** 2 - 3}[fn]
            if win == 1 and fn in ('moving_skew', 'moving_kurtosis', 'moving_std'):
                continue
            if out.shape != exp.shape or not np.allclose(out, exp, rtol=1e-6, atol=1e-8, equal_nan=True):
                return dict(reproduced=True, detail=f'{fn}(data{shape}, {win}, axis={axis}): shape {out.shape} vs {exp.shape}; values differ from the naive window statistic')
        return dict(reproduced=False, detail='agrees with the naive windows')
    if w['kind'] == 'peaks-long':
        x = np.zeros(LONG_N)
        for pos, hv in zip(LONG_POS, w['heights']):
            x[pos] = hv
        out = [int(v) for v in sp.find_peaks(x, 5, 0.5)]
        return dict(reproduced=out != list(LONG_POS), detail=f'find_peaks on {LONG_N} samples with peaks {w["heights"]} at {LONG_POS} returned {out}')
    if w['kind'] == 'pattern':
        k = w['k']
        tries = [(L.to_numpy(w['t']), L.to_numpy(w['p']))] + [(np.array([rnd.uniform(-3, 3) for _ in range(5)]), np.array([rnd.uniform(-3, 3) for _ in range(k)])) for _ in range(4)]
        for t, p in tries:
            t = np.array(t, dtype='float64')
            p = t[1:1 + k] if w.get('alias') else np.array(p, dtype='float64')
            t0, p0 = t.copy(), p.copy()
            with np.errstate(all='ignore'):
                out = np.array(getattr(sp, w['fn'])(t, p))
            t, p = t0, p0                       # the reference is computed from what the caller passed
            sw = np.lib.stride_tricks.sliding_window_view(t, k)
            if w['fn'] == 'distance':
                exp = np.sqrt(((sw - p) ** 2).sum(-1))
            elif w['fn'] == 'correlation':
                exp = np.array([np.corrcoef(r, p)[0, 1] for r in sw])
            else:
                exp = np.sqrt(np.abs((sw - p).var(-1))) / np.sqrt(np.abs((sw + p).var(-1)))
            if out.shape != exp.shape or not np.allclose(out, exp, rtol=1e-6, atol=1e-6, equal_nan=True):      # sqrt of a cancelled difference: absolute error ~ 1e-8 |x|
                return dict(reproduced=True, detail=f'{w["fn"]}({t.tolist()}, {p.tolist()}) = {out.tolist()} expected {exp.tolist()}')
        return dict(reproduced=False, detail='agrees')
    if w['kind'] == 'width':
        x = L.to_numpy(w['x']).astype('float64')
        thr = float(Fraction(*w['thr']))
        direction = getattr(sp.Direction, w['direction'])
        import warnings
        warnings.simplefilter('ignore')
        out = np.array(sp.find_width(x, direction, thr, w['mw'], w['xw'], w['dl'])).tolist()
        beyond = [(v > thr) if w['direction'] == 'POSITIVE' else (v < thr) for v in x]
        exp = runs_oracle(beyond, w['mw'], w['xw'], w['dl'])
        return dict(reproduced=[list(map(int, r)) for r in out] != exp, detail=f'find_width({x.tolist()}, {w["direction"]}, {thr}, {w["mw"]}, {w["xw"]}, {w["dl"]}) = {out} expected {exp}')
    if w['kind'] in ('peaks', 'core'):
        if w['kind'] == 'core':
            x = L.to_numpy(w['x']).astype('float64')
            got = [int(v) for v in sp.peaks_detection._find_peaks_numba_core(x, np.array(w['positions'], dtype='int32'), w['d'])]
            cand = w['positions']
            d = w['d']
        else:
            x = L.to_numpy(w['x'])
            h = float(Fraction(*w['h'])) if w['dt'] == 'float64' else int(w['h'][0])
            d = w['d']
            got = [int(v) for v in sp.find_peaks(x, d, h)]
            n = len(x)
            cand = [i for i in range(n) if (i == 0 or x[i] >= x[i - 1]) and (i == n - 1 or x[i] >= x[i + 1]) and x[i] >= h]
        bad = []
        if any(g not in cand for g in got):
            bad.append('non-candidate returned')
        if any(abs(a - b) < d for a in got for b in got if a != b):
            bad.append('peaks too close')
        for c in cand:
            if c not in got and not any(o != c and abs(o - c) < d and x[o] >= x[c] for o in cand):
                bad.append(f'candidate {c} lost')
        return dict(reproduced=bool(bad), detail=f'data {x.tolist()}, distance {d}: returned {got}, candidates {cand}: {bad}')
    return dict(reproduced=False, detail='reported from the symbolic run')
