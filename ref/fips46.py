"""FIPS 46-3 (DES / TDES) written from the standard, at bit level, over z3 terms.

Bits are 1-bit bit-vector terms, numbered as in the standard (bit 1 = most significant bit of the first byte).
A byte string is a list of 8-bit terms.  `DesRef` is parametrised by the S-box function (so that the
data-flow comparison can share scared's own table terms once the table lemma has tied them to S1..S8).
Concrete evaluation: feed z3.BitVecVal inputs and `simplify`.
"""
import z3

IP = [58, 50, 42, 34, 26, 18, 10, 2, 60, 52, 44, 36, 28, 20, 12, 4, 62, 54, 46, 38, 30, 22, 14, 6, 64, 56, 48, 40, 32, 24, 16, 8,
      57, 49, 41, 33, 25, 17, 9, 1, 59, 51, 43, 35, 27, 19, 11, 3, 61, 53, 45, 37, 29, 21, 13, 5, 63, 55, 47, 39, 31, 23, 15, 7]
FP = [40, 8, 48, 16, 56, 24, 64, 32, 39, 7, 47, 15, 55, 23, 63, 31, 38, 6, 46, 14, 54, 22, 62, 30, 37, 5, 45, 13, 53, 21, 61, 29,
      36, 4, 44, 12, 52, 20, 60, 28, 35, 3, 43, 11, 51, 19, 59, 27, 34, 2, 42, 10, 50, 18, 58, 26, 33, 1, 41, 9, 49, 17, 57, 25]
E = [32, 1, 2, 3, 4, 5, 4, 5, 6, 7, 8, 9, 8, 9, 10, 11, 12, 13, 12, 13, 14, 15, 16, 17,
     16, 17, 18, 19, 20, 21, 20, 21, 22, 23, 24, 25, 24, 25, 26, 27, 28, 29, 28, 29, 30, 31, 32, 1]
P = [16, 7, 20, 21, 29, 12, 28, 17, 1, 15, 23, 26, 5, 18, 31, 10, 2, 8, 24, 14, 32, 27, 3, 9, 19, 13, 30, 6, 22, 11, 4, 25]
PC1 = [57, 49, 41, 33, 25, 17, 9, 1, 58, 50, 42, 34, 26, 18, 10, 2, 59, 51, 43, 35, 27, 19, 11, 3, 60, 52, 44, 36,
       63, 55, 47, 39, 31, 23, 15, 7, 62, 54, 46, 38, 30, 22, 14, 6, 61, 53, 45, 37, 29, 21, 13, 5, 28, 20, 12, 4]
PC2 = [14, 17, 11, 24, 1, 5, 3, 28, 15, 6, 21, 10, 23, 19, 12, 4, 26, 8, 16, 7, 27, 20, 13, 2,
       41, 52, 31, 37, 47, 55, 30, 40, 51, 45, 33, 48, 44, 49, 39, 56, 34, 53, 46, 42, 50, 36, 29, 32]
SHIFTS = [1, 1, 2, 2, 2, 2, 2, 2, 1, 2, 2, 2, 2, 2, 2, 1]

# S1..S8 in the row / column form of the standard
S = [
    [[14, 4, 13, 1, 2, 15, 11, 8, 3, 10, 6, 12, 5, 9, 0, 7], [0, 15, 7, 4, 14, 2, 13, 1, 10, 6, 12, 11, 9, 5, 3, 8],
     [4, 1, 14, 8, 13, 6, 2, 11, 15, 12, 9, 7, 3, 10, 5, 0], [15, 12, 8, 2, 4, 9, 1, 7, 5, 11, 3, 14, 10, 0, 6, 13]],
    [[15, 1, 8, 14, 6, 11, 3, 4, 9, 7, 2, 13, 12, 0, 5, 10], [3, 13, 4, 7, 15, 2, 8, 14, 12, 0, 1, 10, 6, 9, 11, 5],
     [0, 14, 7, 11, 10, 4, 13, 1, 5, 8, 12, 6, 9, 3, 2, 15], [13, 8, 10, 1, 3, 15, 4, 2, 11, 6, 7, 12, 0, 5, 14, 9]],
    [[10, 0, 9, 14, 6, 3, 15, 5, 1, 13, 12, 7, 11, 4, 2, 8], [13, 7, 0, 9, 3, 4, 6, 10, 2, 8, 5, 14, 12, 11, 15, 1],
     [13, 6, 4, 9, 8, 15, 3, 0, 11, 1, 2, 12, 5, 10, 14, 7], [1, 10, 13, 0, 6, 9, 8, 7, 4, 15, 14, 3, 11, 5, 2, 12]],
    [[7, 13, 14, 3, 0, 6, 9, 10, 1, 2, 8, 5, 11, 12, 4, 15], [13, 8, 11, 5, 6, 15, 0, 3, 4, 7, 2, 12, 1, 10, 14, 9],
     [10, 6, 9, 0, 12, 11, 7, 13, 15, 1, 3, 14, 5, 2, 8, 4], [3, 15, 0, 6, 10, 1, 13, 8, 9, 4, 5, 11, 12, 7, 2, 14]],
    [[2, 12, 4, 1, 7, 10, 11, 6, 8, 5, 3, 15, 13, 0, 14, 9], [14, 11, 2, 12, 4, 7, 13, 1, 5, 0, 15, 10, 3, 9, 8, 6],
     [4, 2, 1, 11, 10, 13, 7, 8, 15, 9, 12, 5, 6, 3, 0, 14], [11, 8, 12, 7, 1, 14, 2, 13, 6, 15, 0, 9, 10, 4, 5, 3]],
    [[12, 1, 10, 15, 9, 2, 6, 8, 0, 13, 3, 4, 14, 7, 5, 11], [10, 15, 4, 2, 7, 12, 9, 5, 6, 1, 13, 14, 0, 11, 3, 8],
     [9, 14, 15, 5, 2, 8, 12, 3, 7, 0, 4, 10, 1, 13, 11, 6], [4, 3, 2, 12, 9, 5, 15, 10, 11, 14, 1, 7, 6, 0, 8, 13]],
    [[4, 11, 2, 14, 15, 0, 8, 13, 3, 12, 9, 7, 5, 10, 6, 1], [13, 0, 11, 7, 4, 9, 1, 10, 14, 3, 5, 12, 2, 15, 8, 6],
     [1, 4, 11, 13, 12, 3, 7, 14, 10, 15, 6, 8, 0, 5, 9, 2], [6, 11, 13, 8, 1, 4, 10, 7, 9, 5, 0, 15, 14, 2, 3, 12]],
    [[13, 2, 8, 4, 6, 15, 11, 1, 10, 9, 3, 14, 5, 0, 12, 7], [1, 15, 13, 8, 10, 3, 7, 4, 12, 5, 6, 11, 0, 14, 9, 2],
     [7, 11, 4, 1, 9, 12, 14, 2, 0, 6, 10, 13, 15, 3, 5, 8], [2, 1, 14, 7, 4, 10, 8, 13, 15, 12, 9, 0, 3, 5, 6, 11]],
]


def sbox_direct(w):
    """S-box w as a 64-entry list indexed by the 6 input bits b1..b6 read as a number (row = b1 b6, column = b2..b5)."""
    out = []
    for x in range(64):
        row = ((x >> 5) & 1) * 2 + (x & 1)
        col = (x >> 1) & 0xf
        out.append(S[w][row][col])
    return out


def bits_of(bytes_):
    out = []
    for b in bytes_:
        out += [z3.Extract(7 - i, 7 - i, b) for i in range(8)]
    return out


def bytes_of(bits, width=8):
    """Pack a list of bits, `width` at a time, into 8-bit terms (zero padded on the left)."""
    out = []
    for i in range(0, len(bits), width):
        t = z3.Concat(*bits[i:i + width]) if width > 1 else bits[i]
        out.append(z3.ZeroExt(8 - width, t) if width < 8 else t)
    return out


def perm(src, table):
    return [src[i - 1] for i in table]


def inv_perm32(src):
    """y such that P(y) = src."""
    out = [None] * 32
    for j, pj in enumerate(P):
        out[pj - 1] = src[j]
    return out


_SPEC_ARR = {}


def spec_sbox_fn(w, x6):
    """S_w applied to a 6-bit term (returns a 4-bit term) via the standard's table."""
    a = _SPEC_ARR.get(w)
    if a is None:
        a = z3.K(z3.BitVecSort(6), z3.BitVecVal(0, 4))
        for i, v in enumerate(sbox_direct(w)):
            a = z3.Store(a, z3.BitVecVal(i, 6), z3.BitVecVal(v, 4))
        _SPEC_ARR[w] = a
    return z3.Select(a, x6)


def key_schedule_bits(key_bytes):
    """16 round keys, each a list of 48 bits, from an 8-byte key (parity bits ignored by PC-1)."""
    kb = bits_of(key_bytes)
    cd = perm(kb, PC1)
    c, d = cd[:28], cd[28:]
    out = []
    for r in range(16):
        s = SHIFTS[r]
        c, d = c[s:] + c[:s], d[s:] + d[:s]
        out.append(perm(c + d, PC2))
    return out


def round_keys_from_expanded(exp_bytes):
    """128 bytes (16 x 8 words of 6 bits) -> 16 lists of 48 bits (the low 6 bits of every byte)."""
    out = []
    for r in range(16):
        bits = []
        for wd in range(8):
            b = exp_bytes[8 * r + wd]
            bits += [z3.Extract(5 - i, 5 - i, b) for i in range(6)]
        out.append(bits)
    return out


class DesRef:
    def __init__(self, sbox=spec_sbox_fn):
        self.sbox = sbox      # (w, 6-bit term) -> 4-bit term

    def des_pass(self, in_bytes, rks, first_ip=True):
        """One DES network with the 16 round keys in the order given.  Returns a dict of per-round values (bit lists)
        and the pre-output (R16, L16) / output bytes."""
        x = perm(bits_of(in_bytes), IP)
        return self.rounds(x[:32], x[32:], rks)

    def rounds(self, L, R, rks):
        tr = {'L0': L, 'R0': R, 'rounds': []}
        for r in range(16):
            er = perm(R, E)
            ek = [a ^ b for a, b in zip(er, rks[r])]
            so = []
            for w in range(8):
                o = self.sbox(w, z3.Concat(*ek[6 * w:6 * w + 6]))
                so += [z3.Extract(3 - i, 3 - i, o) for i in range(4)]
            f = perm(so, P)
            newR = [a ^ b for a, b in zip(L, f)]
            tr['rounds'].append(dict(Lp=L, Rp=R, er=er, ek=ek, so=so, f=f, L=R, R=newR))
            L, R = R, newR
        tr['pre'] = R + L
        tr['out'] = bytes_of(perm(R + L, FP))
        return tr

    # expected values at scared's stop points ---------------------------------------------------------
    @staticmethod
    def stop_value(tr, at_round, after_step, final_pass, first_pass):
        """Bytes the statement names at (at_round, after_step) of one pass (see DESIGN.md C06).
        Returns (list of 8-bit terms, positions of the output they are compared with)."""
        rd = tr['rounds'][at_round]
        if after_step == 0:
            return bytes_of(rd['Lp'] + rd['Rp']), list(range(8))
        if after_step == 1:
            return bytes_of(rd['er'], 6), list(range(8))
        if after_step == 2:
            return bytes_of(rd['ek'], 6), list(range(8))
        if after_step == 3:
            return bytes_of(rd['so'], 4), list(range(8))
        if after_step == 4:
            return bytes_of(rd['f']), [0, 1, 2, 3]
        if after_step == 5:
            return bytes_of(rd['R'] + rd['L']), list(range(8))
        if after_step == 6:
            return bytes_of(rd['L'] + rd['R']), list(range(8))
        if after_step == 7:
            return bytes_of(inv_perm32(rd['R']), 4), list(range(8))
        if after_step == 8:
            return bytes_of(inv_perm32([a ^ b for a, b in zip(rd['R'], rd['Rp'])]), 4), list(range(8))
        if after_step == 9:
            if at_round == 15:
                return tr['out'], list(range(8))
            return bytes_of(rd['L'] + rd['R']), list(range(8))
        raise ValueError(after_step)


def pass_keys(mode, key_kind, rk_sets, p):
    """Round keys (16 lists of 48 bits) used by DES pass p (0..2) of `mode` for the key kind.
    rk_sets: list of 1, 2 or 3 key schedules K1[,K2[,K3]] (each 16 x 48 bits, encryption order)."""
    nk = len(rk_sets)
    if nk == 1:
        k = rk_sets[0]
        return k if mode == 'encrypt' else k[::-1]
    k1, k2 = rk_sets[0], rk_sets[1]
    k3 = rk_sets[2] if nk == 3 else k1
    if mode == 'encrypt':      # E_K1, D_K2, E_K3
        return [k1, k2[::-1], k3][p]
    return [k3[::-1], k2, k1[::-1]][p]      # D_K3, E_K2, D_K1


def concrete_eval(terms):
    return [z3.simplify(t).as_long() for t in terms]
