"""FIPS-197 (AES) written from the standard, over z3 bit-vector terms.

Two layers:
  * spec_* : bit-level definitions (GF(2^8) arithmetic, S-box = affine(inverse)), used for the table lemmas;
  * AesRef : the cipher / inverse cipher / key expansion parametrised by byte functions sbox, inv_sbox and
             mul[k] (k in 2, 3, 9, 11, 13, 14).  Instantiated with the spec functions it *is* FIPS-197; instantiated
             with uninterpreted function symbols it is the data-flow skeleton compared with scared's.
A state is a list of 16 byte terms in FIPS input order (byte i is row i % 4 of column i // 4).
Concrete evaluation: feed z3.BitVecVal inputs and `simplify`.
"""
import z3

BV8 = lambda v: z3.BitVecVal(v, 8)  # noqa: E731


def spec_xtime(a):
    return (a << 1) ^ z3.If(z3.Extract(7, 7, a) == 1, BV8(0x1b), BV8(0))


def spec_mul(k, a):
    """k (constant) times a in GF(2^8) modulo x^8 + x^4 + x^3 + x + 1."""
    r = BV8(0)
    p = a
    while k:
        if k & 1:
            r = r ^ p
        p = spec_xtime(p)
        k >>= 1
    return r


def spec_gmul(a, b):
    """Product of two symbolic field elements."""
    r = BV8(0)
    p = a
    for i in range(8):
        r = r ^ z3.If(z3.Extract(i, i, b) == 1, p, BV8(0))
        p = spec_xtime(p)
    return r


def spec_inverse(a):
    """a^254 (0 maps to 0)."""
    a2 = spec_gmul(a, a)
    a4 = spec_gmul(a2, a2)
    a8 = spec_gmul(a4, a4)
    a16 = spec_gmul(a8, a8)
    a32 = spec_gmul(a16, a16)
    a64 = spec_gmul(a32, a32)
    a128 = spec_gmul(a64, a64)
    r = spec_gmul(a128, a64)
    r = spec_gmul(r, a32)
    r = spec_gmul(r, a16)
    r = spec_gmul(r, a8)
    r = spec_gmul(r, a4)
    return spec_gmul(r, a2)


def _rotl8(x, n):
    return z3.RotateLeft(x, n)


def spec_affine(b):
    return b ^ _rotl8(b, 1) ^ _rotl8(b, 2) ^ _rotl8(b, 3) ^ _rotl8(b, 4) ^ BV8(0x63)


def spec_sbox(a):
    return spec_affine(spec_inverse(a))


def spec_rcon(i):
    """Rcon[i] = x^(i-1), i >= 1 (as Python int)."""
    v = 1
    for _ in range(i - 1):
        v <<= 1
        if v & 0x100:
            v ^= 0x11b
    return v


SHIFT = [(r + 4 * ((c + r) % 4)) for c in range(4) for r in range(4)]       # out[r+4c] = in[r + 4((c+r)%4)]
INV_SHIFT = [(r + 4 * ((c - r) % 4)) for c in range(4) for r in range(4)]
NR = {16: 10, 24: 12, 32: 14}


class AesRef:
    def __init__(self, sbox, inv_sbox, mul, const=None):
        self.S, self.IS, self.M = sbox, inv_sbox, mul
        self.K = const or BV8

    # round operations -----------------------------------------------------------------------
    def sub_bytes(self, s): return [self.S(b) for b in s]
    def inv_sub_bytes(self, s): return [self.IS(b) for b in s]
    def shift_rows(self, s): return [s[i] for i in SHIFT]
    def inv_shift_rows(self, s): return [s[i] for i in INV_SHIFT]
    def add_round_key(self, s, k): return [a ^ b for a, b in zip(s, k)]

    def mix_column(self, a):
        m = self.M
        return [m[2](a[0]) ^ m[3](a[1]) ^ a[2] ^ a[3],
                a[0] ^ m[2](a[1]) ^ m[3](a[2]) ^ a[3],
                a[0] ^ a[1] ^ m[2](a[2]) ^ m[3](a[3]),
                m[3](a[0]) ^ a[1] ^ a[2] ^ m[2](a[3])]

    def inv_mix_column(self, a):
        m = self.M
        return [m[14](a[0]) ^ m[11](a[1]) ^ m[13](a[2]) ^ m[9](a[3]),
                m[9](a[0]) ^ m[14](a[1]) ^ m[11](a[2]) ^ m[13](a[3]),
                m[13](a[0]) ^ m[9](a[1]) ^ m[14](a[2]) ^ m[11](a[3]),
                m[11](a[0]) ^ m[13](a[1]) ^ m[9](a[2]) ^ m[14](a[3])]

    def mix_columns(self, s):
        out = []
        for c in range(4):
            out += self.mix_column(s[4 * c:4 * c + 4])
        return out

    def inv_mix_columns(self, s):
        out = []
        for c in range(4):
            out += self.inv_mix_column(s[4 * c:4 * c + 4])
        return out

    # key expansion ----------------------------------------------------------------------------
    def key_expansion(self, key):
        """key: list of 16/24/32 byte terms -> list of 4*(Nr+1) words (each a list of 4 bytes)."""
        nk = len(key) // 4
        nr = NR[len(key)]
        w = [key[4 * i:4 * i + 4] for i in range(nk)]
        for i in range(nk, 4 * (nr + 1)):
            t = w[i - 1]
            if i % nk == 0:
                t = [self.S(b) for b in (t[1:] + t[:1])]
                t = [t[0] ^ self.K(spec_rcon(i // nk))] + t[1:]
            elif nk > 6 and i % nk == 4:
                t = [self.S(b) for b in t]
            w.append([a ^ b for a, b in zip(w[i - nk], t)])
        return w

    def round_keys(self, key):
        w = self.key_expansion(key)
        return [sum((w[4 * r + c] for c in range(4)), []) for r in range(len(w) // 4)]

    # cipher as a flat sequence of states ---------------------------------------------------------
    def cipher_states(self, block, key):
        """States after each operation of Cipher(): [in, ARK0, (SB, SR, MC, ARK)*, SB, SR, ARK]."""
        rk = self.round_keys(key)
        nr = len(rk) - 1
        st = [list(block)]
        st.append(self.add_round_key(st[-1], rk[0]))
        for r in range(1, nr):
            st.append(self.sub_bytes(st[-1]))
            st.append(self.shift_rows(st[-1]))
            st.append(self.mix_columns(st[-1]))
            st.append(self.add_round_key(st[-1], rk[r]))
        st.append(self.sub_bytes(st[-1]))
        st.append(self.shift_rows(st[-1]))
        st.append(self.add_round_key(st[-1], rk[nr]))
        return st

    def inv_cipher_states(self, block, key):
        """States after each operation of InvCipher(): [in, ARK(Nr), (ISR, ISB, ARK, IMC)*, ISR, ISB, ARK0]."""
        rk = self.round_keys(key)
        nr = len(rk) - 1
        st = [list(block)]
        st.append(self.add_round_key(st[-1], rk[nr]))
        for r in range(nr - 1, 0, -1):
            st.append(self.inv_shift_rows(st[-1]))
            st.append(self.inv_sub_bytes(st[-1]))
            st.append(self.add_round_key(st[-1], rk[r]))
            st.append(self.inv_mix_columns(st[-1]))
        st.append(self.inv_shift_rows(st[-1]))
        st.append(self.inv_sub_bytes(st[-1]))
        st.append(self.add_round_key(st[-1], rk[0]))
        return st


def enc_position(nr, at_round, after_step):
    """Index into cipher_states of 'encryption stopped at round at_round after step after_step' (0 SubBytes, 1 ShiftRows, 2 MixColumns, 3 AddRoundKey).
    Round 0 is the initial AddRoundKey alone; the last round has no MixColumns (stopping after it returns the ShiftRows state)."""
    if at_round == 0:
        return [0, 0, 0, 1][after_step]
    if at_round < nr:
        return 1 + 4 * (at_round - 1) + [1, 2, 3, 4][after_step]
    return 1 + 4 * (nr - 1) + [1, 2, 2, 3][after_step]


def dec_position(nr, at_round, after_step):
    """Index into inv_cipher_states for decryption stopped at (at_round, after_step) (0 AddRoundKey, 1 InvMixColumns, 2 InvShiftRows, 3 InvSubBytes)."""
    if at_round == 0:
        return [1, 1, 2, 3][after_step]
    if at_round < nr:
        return 3 + 4 * (at_round - 1) + [1, 2, 3, 4][after_step]
    return 3 + 4 * (nr - 1) + 1


def spec_ref():
    return AesRef(spec_sbox, None, {k: (lambda a, k=k: spec_mul(k, a)) for k in (2, 3, 9, 11, 13, 14)})


def concrete_tables():
    """Python tables computed from the spec (256 concrete evaluations each); used for replay."""
    def tab(f):
        return [z3.simplify(f(BV8(i))).as_long() for i in range(256)]
    sb = tab(spec_sbox)
    inv = [0] * 256
    for i, v in enumerate(sb):
        inv[v] = i
    mul = {k: tab(lambda a, k=k: spec_mul(k, a)) for k in (2, 3, 9, 11, 13, 14)}
    return sb, inv, mul


_CT = None


def concrete_ref():
    """AesRef over Python ints (lists of ints in, lists of ints out)."""
    global _CT
    if _CT is None:
        _CT = concrete_tables()
    sb, inv, mul = _CT

    return AesRef(lambda b: sb[b], lambda b: inv[b], {k: (lambda a, t=t: t[a]) for k, t in mul.items()}, const=int)
